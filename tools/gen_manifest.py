#!/usr/bin/env python3
"""Writes /verif/MANIFEST.json from the tables below (single source of truth for the interface)."""
import json

CLAIMED = {
 "C03": ("html-stream", "4.1", "seeded simulation of the push-parser protocol: the real tokenizer/tree builder fed under a generated schedule (chunk cuts, buffer representations, script/indicator pauses, deliveries while suspended, document.write injections) must equal the one-piece run of the same logical stream: tokens, tokenizer errors, lines of non-character tokens, tree, pause positions",
          "deterministic simulation: seeded schedule search, run-vs-reference-run oracle, minimised replay"),
 "C04": ("html-stream + xml-stream", "4.2", "seeded simulation over inputs (incl. pathological depth/length), schedules, all option sets, fragment contexts, arbitrary tokenizer start states, early EOF in both forms, collections and sink refusals; worker processes isolate panic/abort/stack overflow, a watchdog (re-run alone before reporting) detects hangs; invariants: queue empty after Done, exactly one EOF as last token, end() returns",
          "deterministic simulation: seeded schedule/fault search with process isolation and watchdog"),
 "C05": ("html-stream + xml-stream", "4.3", "every TreeSink call of every simulated parse is validated by a monitoring model sink before it is applied (handle provenance and kind, parentless child, no cycles, non-text sibling with parent, single early doctype, no duplicate qualified attribute names)",
          "deterministic simulation: contract monitor evaluated as an invariant during seeded runs"),
 "C06": ("html-stream", "4.4", "skeleton invariants evaluated on the final model DOM of every simulated document parse under all schedules, both scripting settings, with injections and truncation",
          "deterministic simulation: invariant over final state of seeded runs"),
 "C08": ("html-stream + xml-stream", "4.5", "same input and same schedule run twice with one option flipped; tokens, lines, tree and pauses must agree up to the stated difference (errors; leading BOM; doctype node)",
          "deterministic simulation: paired seeded runs differing in one configuration knob"),
 "C09": ("html-stream", "4.6", "at every token emission of every simulated run the reported line is compared with 1 + line breaks in the input consumed so far, measured by the harness-owned queue (no hook); set_current_line forwarding checked against the token's line",
          "deterministic simulation: consumption probe invariant at every emission"),
 "C10": ("byte-stream", "4.7", "bytes generated per encoding (every ill-formed UTF-8 class, lone lead bytes, ISO-2022-JP escapes, UTF-16 lone surrogates, BOMs, truncated tails) delivered as process() chunks cut at arbitrary byte offsets or through read_from(SimReader) with short reads, Interrupted and (separate fault cases) a hard error; the text reaching the inner sink and the number of error() calls must equal a one-shot lossy decode; from_utf8() parsers must build the tree of the lossy string; every delivered piece must be valid UTF-8",
          "deterministic simulation: seeded byte-delivery and I/O-fault search against a one-shot reference decode"),
 "C11": ("tendril-history", "4.8", "seeded operation histories (30 operation kinds of the safe Tendril API) over a pool of 6 tendrils per format (UTF8, Bytes, ASCII, Latin1, WTF8) x {NonAtomic, Atomic}; after every operation every live tendril equals its Vec<u8> model, checked operations fail exactly when the model says, content stays valid for the format",
          "deterministic simulation: seeded history search against an executable reference model"),
 "C12": ("tendril-history-ledger + miri", "4.9", "the same histories run inside an allocation-ledger region (global allocator with live table, red zones, poison + quarantine): double free, free with a different layout, out-of-bounds write, write after free, leak; thorough tier adds the histories and a 3-thread clone/SendTendril scenario under Miri with seeded schedules",
          "deterministic simulation: seeded histories under an allocation-fault ledger; Miri seeded thread schedules"),
 "C13": ("bufferqueue-history", "4.10", "seeded histories of every BufferQueue operation over strings split into owned / shared-adjacent buffers, compared return value by return value and buffer by buffer with a VecDeque<String> model",
          "deterministic simulation: seeded history search against an executable reference model"),
 "C15": ("xml-stream", "4.11", "xml5ever tokenizer + tree builder under simulated delivery: tree of any schedule equals the one-piece tree; exact_errors flip; discard_bom; and any schedule/option set equals the one-piece character-at-a-time run of the pre-normalised input (CR/CRLF->LF, NUL->U+FFFD)",
          "deterministic simulation: seeded schedule search, run-vs-reference-run oracle"),
 "C18": ("html-stream + xml-stream", "4.12", "a simulated collector runs at seeded suspension points, roots = trace_handles + handles held by the embedder, poisons everything not connected to a root; any later sink call on a poisoned node is a violation; trees with and without collections must agree",
          "deterministic simulation: garbage-collection fault injected at suspension points"),
 "C19": ("html-stream", "4.13", "history check over recorded sink calls and feed() results: expected indicators are derived from inserted HTML meta elements with an independent implementation of the WHATWG extraction algorithm; sequence equal under every schedule; resumption transparent",
          "deterministic simulation: recorded-history check of seeded runs"),
}

CLAIMED["C20"] = ("rcdom-history", "4.14", "a tee sink forwards every TreeSink call of real HTML/XML parses, and seeded direct histories of contract-valid calls, to both RcDom and the abstract DOM model; after every mutating call: structural equality, parent link of every node ever created, serializer callbacks vs. model preorder walk",
          "deterministic simulation: seeded history search against an executable reference model")

NOT_APPLICABLE = {
 "C01": "pure function of (input, start state, sink answers): no schedule, fault, clock or history to simulate; deciding it needs a second WHATWG tokenizer (differential testing), outside this technique. Schedule/option-dependent aspects are decided under C03/C08/C09.",
 "C02": "pure function of the input and configuration; no reference tree constructor exists on this machine and re-implementing one is translation validation, not simulation.",
 "C07": "pure function of a tree; the serializer's only seam is the caller's io::Write, about which the property says nothing.",
 "C14": "finite table x contexts 'enumerated exhaustively': bounded exhaustive enumeration is model checking / exhaustive testing, the stated non-goal of this technique. Chunk boundaries inside references are exercised under C03.",
 "C16": "pure function of the input document (namespace scoping has no schedule, fault or interleaving).",
 "C17": "pure function of a tree (serialize then re-parse); nothing nondeterministic to simulate.",
}

PENDING = {
}

def main():
    checks = []
    for pid, (engine, ref, text, tech) in sorted(CLAIMED.items()):
        checks.append({
            "property_id": pid,
            "quick_cmd": f"./check {pid} quick",
            "thorough_cmd": f"./check {pid} thorough",
            "evidence_file": f"/verif/evidence/{pid}.json",
            "replay_cmd_template": "./check replay {path}",
            "engine": engine,
            "level_claimed": {"category": "exploration", "text": text + ". Seeded search: a clean batch is evidence, not proof.", "design_ref": "DESIGN.md §" + ref},
            "level_note": "trusted base: the harness (simcore), its model DOM / reference models, rustc; sampled inputs and schedules only; x86-64 (SSE2 + scalar paths, not NEON); three cases in four run in a release build with debug assertions and overflow checks, one in four in a plain release build (knob K3)",
            "technique": tech,
        })
    na = [{"property_id": k, "reason": v} for k, v in sorted({**NOT_APPLICABLE, **PENDING}.items())]
    m = {
        "version": 1,
        "setup_cmd": "./check build",
        "hooks": {
            "guard": "html5ever_verif",
            "enable": "no hook is needed: every seam is public API (BufferQueue owned by the harness, Tokenizer::feed/end, TreeSink/TokenSink/Tracer traits, io::Read). The guard name is reserved; no source commit uses it.",
            "baseline_off_cmd": "cd /repo && cargo test --workspace --no-fail-fast --offline",
            "source_commits": [],
            "add_only": True,
        },
        "engines": [
            {"name": "tendril-history", "path": "/verif/sim/tendril_hist/src/lib.rs", "serves_properties": ["C11", "C12"], "kind_free_text": "seeded operation histories over tendril pools with Vec<u8> models; allocation ledger (global allocator) and Miri front ends"},
            {"name": "bufferqueue-history", "path": "/verif/sim/simcore/src/bufqueue_world.rs", "serves_properties": ["C13"], "kind_free_text": "seeded BufferQueue histories vs VecDeque<String>"},
            {"name": "byte-stream", "path": "/verif/sim/simcore/src/bytes_world.rs", "serves_properties": ["C10"], "kind_free_text": "simulated byte delivery (chunk cuts, SimReader with short reads / EINTR / hard error) into tendril's decoders and the from_utf8() parsers"},
            {"name": "rcdom-history", "path": "/verif/sim/simcore/src/rcdom_world.rs", "serves_properties": ["C20"], "kind_free_text": "tee sink (RcDom + model DOM) under recorded parse histories and seeded direct histories"},
            {"name": "xml-stream", "path": "/verif/sim/simcore/src/xml_stream.rs", "serves_properties": ["C04", "C05", "C08", "C15", "C18"], "kind_free_text": "the same event loop driving xml5ever's tokenizer and tree builder"},
            {"name": "html-stream", "path": "/verif/sim/simcore/src/html_stream.rs", "serves_properties": ["C03", "C04", "C05", "C06", "C08", "C09", "C18", "C19"], "kind_free_text": "sequential discrete-event simulator of the HTML push-parser protocol (source, embedder, script, collector, sinks)"},
        ],
        "checks": checks,
        "not_applicable": na,
        "notes": "setup builds the simulator twice (target/release: debug assertions + overflow checks; target/plain: neither). All checks: ./check <ID> quick|thorough, VERIF_SEED honoured (default 20260925). Exit 0 held / 1 VIOLATION / 2 harness error. Known findings: /verif/known_findings.json.",
    }
    json.dump(m, open("/verif/MANIFEST.json", "w"), indent=1)
    print("wrote MANIFEST.json with", len(checks), "checks,", len(na), "not_applicable")

if __name__ == "__main__":
    main()
