#!/usr/bin/env python3
"""seeded_eval.py <ID> <n> <props...>: confirm an independently written property-breaking change
(/tmp/seeded_out/<ID>/change<n>) in its scratch worktree, run our checks against it in /repo
(apply, check, revert) and store it under /verif/seeded/<ID>-<n>/."""
import json, os, subprocess, sys, shutil, re
pid, n = sys.argv[1], sys.argv[2]
props = sys.argv[3:]
src = f"/tmp/seeded_out/{pid}/change{n}"
wt = "/tmp/wt_eval"  # one shared scratch worktree (created by the caller: git -C /repo worktree add --detach /tmp/wt_eval HEAD)
meta = json.load(open(f"{src}/meta.json"))
if not props:
    props = [meta["property"][:3]] if pid[0] == "A" else [pid[:3]]
demo_cmd = meta["demo_cmd"].replace(f"/tmp/wt_{pid}", wt)
def sh(cmd, cwd=None, timeout=1800):
    p = subprocess.run(cmd, shell=True, cwd=cwd, stdout=subprocess.PIPE, stderr=subprocess.STDOUT, text=True, timeout=timeout)
    return p.returncode, p.stdout
def clean():
    sh("git checkout -- . && git clean -fdq -e target", cwd=wt)
ran = []
clean()
rc, out = sh(demo_cmd); ran.append(f"clean tree: demo exit {rc}")
demo_pass_clean = rc == 0
clean()
rc, out = sh(f"git apply {src}/patch.diff", cwd=wt)
assert rc == 0, out
rc, out = sh("/verif/tools/repo_tests.sh " + wt); suite = out.strip().splitlines()[-1]; ran.append(f"with change: suite {suite}")
suite_ok = "passed=142 failed=0" in suite
rc, out = sh(demo_cmd); ran.append(f"with change: demo exit {rc}")
demo_fail_changed = rc != 0
clean()
print(f"{pid}-{n}: demo passes on clean={demo_pass_clean}, suite with change ok={suite_ok} [{suite}], demo fails with change={demo_fail_changed}")
confirmed = demo_pass_clean and suite_ok and demo_fail_changed
results = {}
if confirmed:
    rc, out = sh("git diff --quiet", cwd="/repo"); assert rc == 0, "repo dirty"
    rc, out = sh(f"git apply {src}/patch.diff", cwd="/repo"); assert rc == 0, out
    try:
        for p in props:
            rc, out = sh(f"VERIF_NO_EVIDENCE=1 ./check {p} quick", cwd="/verif", timeout=3000)
            m = re.search(r"class=(\S+)", out)
            results[p] = {"exit": rc, "class": m.group(1) if m else None}
            print(f"   {p}: exit={rc} class={m.group(1) if m else None}")
    finally:
        sh("git checkout -- .", cwd="/repo")
        sh("find /verif/replays -name '*.json' -delete")
dst = f"/verif/seeded/{pid}-{n}"
os.makedirs(dst, exist_ok=True)
shutil.copy(f"{src}/patch.diff", dst)
for f in os.listdir(src):
    if f.startswith("demo") or f.endswith(".rs"):
        shutil.copy(f"{src}/{f}", dst)
meta_out = {"property": (meta["property"][:3] if pid[0] == "A" else pid[:3]), "breaks": meta.get("summary"), "needs": meta.get("needs"), "demo_cmd": demo_cmd,
            "origin": "written by an independent sub-agent given only the property text and a scratch worktree",
            "confirmed_by_us": {"ok": confirmed, "ran": ran},
            "checks_run_against_it": results,
            "detected_by": [p for p, r in results.items() if r["exit"] == 1]}
json.dump(meta_out, open(f"{dst}/meta.json", "w"), indent=1)
if not confirmed:
    print("   NOT CONFIRMED - kept for the record with ok=false")
