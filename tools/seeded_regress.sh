#!/bin/bash
# Re-runs every stored independent change (seeded/<ID>-n/patch.diff) against the check(s) that detected it
# (meta.json "detected_by"; the targeted property if none did) and prints whether it is (still) detected.
# Applies to /repo, checks, reverts. One at a time.
cd /verif
for d in seeded/*/; do
  id=$(basename $d)
  [ -f $d/patch.diff ] || continue
  props=$(python3 -c "import json,sys; m=json.load(open('$d/meta.json')); print(' '.join(m.get('detected_by') or [m['property']]))")
  cd /repo; git diff --quiet || { echo "repo dirty"; exit 2; }
  git apply /verif/$d/patch.diff 2>/dev/null || { echo "$id: patch does not apply"; cd /verif; continue; }
  cd /verif
  for prop in $props; do
    out=$(VERIF_NO_EVIDENCE=1 timeout 1500 ./check $prop quick 2>&1); code=$?
    cls=$(echo "$out" | grep -m1 "class=" | sed 's/.*class=\([^ ]*\).*/\1/')
    echo "$id: $prop exit=$code ${cls}"
  done
  git -C /repo checkout -- .
  find /verif/replays -name '*.json' -delete
done
