#!/usr/bin/env python3
import json,glob,collections,sys
byclass=collections.defaultdict(list)
for f in sorted(glob.glob('/verif/replays/*.json')):
    v=json.load(open(f))
    byclass[(v['property'],v['violation'])].append(v)
n=int(sys.argv[1]) if len(sys.argv)>1 else 6
for k,vs in byclass.items():
    print('=====',k,len(vs))
    for v in vs[:n]:
        c=v['case']
        sch=c.get('schedule',{})
        print('  input=%r cuts=%s opts=%s mode=%s pipe=%s extra=%s' % (c.get('input'), sch.get('cuts'), {k:v for k,v in c.get('opts',{}).items() if v not in (False,)} , c.get('mode') or c.get('flip'), c.get('pipeline'), {k:v for k,v in sch.items() if k not in ('cuts',) and v not in (None,[],'owned')}))
        print('     ', v['detail'][:300])
