#!/bin/bash
# Runs the pinned baseline suite in a checkout (default /repo) and prints the number of passing tests.
# The four corpus-driven harness=false targets fail in this sandbox (submodules absent) and are not part of the baseline.
dir="${1:-/repo}"
cd "$dir" && cargo test --workspace --no-fail-fast --offline 2>&1 | awk '/^test result:/ {p+=$4; f+=$6} END {print "passed=" p " failed=" f; if (p==142 && f==0) exit 0; exit 1}'
