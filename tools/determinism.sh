#!/bin/bash
# Determinism self-test: every property, N case indices, executed twice per worker count in {1,7,16},
# in separate processes; the per-case event-log digests must agree pairwise.
N=${1:-20000}
cd /verif
fail=0
for p in C03 C04 C05 C06 C08 C09 C10 C11 C12 C13 C15 C18 C19 C20; do
  rm -f /tmp/dg_$p.*
  i=0
  for w in 1 7 16 16; do
    i=$((i+1))
    VERIF_NO_MIRI=1 VERIF_NO_EVIDENCE=1 VERIF_CASES=$N VERIF_WORKERS=$w VERIF_DUMP_DIGESTS=/tmp/dg_$p.$i ./check $p quick >/dev/null 2>&1
  done
  ok=1
  for i in 2 3 4; do cmp -s /tmp/dg_$p.1 /tmp/dg_$p.$i || ok=0; done
  lines=$(wc -l < /tmp/dg_$p.1)
  if [ $ok = 1 ]; then echo "$p: $lines case digests identical across workers {1,7,16,16}"; else echo "$p: DIGESTS DIFFER"; fail=1; fi
  rm -f /tmp/dg_$p.*
done
exit $fail
