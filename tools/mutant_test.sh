#!/bin/bash
# usage: mutant_test.sh <patch.diff> [props...]   -- applies the patch to /repo, checks that the pinned
# suite still passes, runs the given checks (default: all claimed), reverts. Prints one summary line.
patch="$(readlink -f "$1")"; shift
props="${*:-C03 C04 C05 C06 C08 C09 C10 C11 C12 C13 C15 C18 C19 C20}"
cd /repo || exit 2
if ! git diff --quiet; then echo "repo dirty"; exit 2; fi
git apply "$patch" || { echo "$(basename $patch): patch does not apply"; exit 2; }
trap 'git -C /repo checkout -- .' EXIT
if [ -z "${SKIP_TESTS:-}" ]; then
  t=$(/verif/tools/repo_tests.sh 2>&1 | tail -1)
else
  t="tests skipped"
fi
res=""
for p in $props; do
  grep -q "\"$p\" =>" /verif/sim/sim/src/registry.rs || continue
  out=$(cd /verif && VERIF_NO_EVIDENCE=1 VERIF_CASES=${MUT_CASES:-300000} ./check $p quick 2>&1)
  code=$?
  cls=$(echo "$out" | grep -m1 "class=" | sed 's/.*class=\([^ ]*\).*/\1/')
  res="$res $p=$code${cls:+($cls)}"
done
echo "$(basename $patch .diff): suite[$t] ->$res"
find /verif/replays -name '*.json' -newer "$patch" -delete 2>/dev/null
