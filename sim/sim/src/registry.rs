//! Property -> world registry, budgets, known findings.

use serde_json::Value;
use simcore::html_props::{HProp, HtmlWorld};
use simcore::xml_props::{CompositeWorld, XProp, XmlWorld};
use simcore::world::{Stats, World};

pub fn world_for(prop: &str) -> Option<Box<dyn World>> {
    let h = |p| Some(Box::new(HtmlWorld { prop: p }) as Box<dyn World>);
    let hx = |name: &'static str, p: HProp, x: XProp| {
        Some(Box::new(CompositeWorld {
            prop: name,
            parts: vec![(3, Box::new(HtmlWorld { prop: p }) as Box<dyn World>), (1, Box::new(XmlWorld { prop: x }) as Box<dyn World>)],
        }) as Box<dyn World>)
    };
    match prop {
        "C03" => h(HProp::C03),
        "C04" => hx("C04", HProp::C04, XProp::C04),
        "C05" => hx("C05", HProp::C05, XProp::C05),
        "C06" => h(HProp::C06),
        "C08" => hx("C08", HProp::C08, XProp::C08),
        "C09" => h(HProp::C09),
        "C10" => Some(Box::new(simcore::bytes_world::BytesWorld) as Box<dyn World>),
        "C11" => Some(Box::new(simcore::tendril_world::TendrilWorld { prop: simcore::tendril_world::TProp::C11 }) as Box<dyn World>),
        "C12" => Some(Box::new(simcore::tendril_world::TendrilWorld { prop: simcore::tendril_world::TProp::C12 }) as Box<dyn World>),
        "C13" => Some(Box::new(simcore::bufqueue_world::QueueWorld) as Box<dyn World>),
        "C15" => Some(Box::new(XmlWorld { prop: XProp::C15 }) as Box<dyn World>),
        "C18" => hx("C18", HProp::C18, XProp::C18),
        "C19" => h(HProp::C19),
        "C20" => Some(Box::new(simcore::rcdom_world::RcDomWorld) as Box<dyn World>),
        _ => None,
    }
}

/// Number of cases per (property, tier).  Fixed counts, not wall-clock, so that a verdict never
/// depends on machine speed.
pub fn budget(prop: &str, thorough: bool) -> u64 {
    let quick = match prop {
        "C04" => 700_000,
        _ => 1_000_000,
    };
    if thorough {
        quick * 15
    } else {
        quick
    }
}

pub struct KnownFinding {
    pub id: String,
    pub property: String,
    pub status: String,
    pub what: String,
    pub toggle: Option<String>,
    pub violation: String,
    pub pinned_case: Value,
}

pub fn load_known_findings(prop: &str) -> Vec<KnownFinding> {
    let text = match std::fs::read_to_string("/verif/known_findings.json") {
        Ok(t) => t,
        Err(_) => return vec![],
    };
    let v: Value = match serde_json::from_str(&text) {
        Ok(v) => v,
        Err(_) => return vec![],
    };
    let mut out = vec![];
    for f in v["findings"].as_array().unwrap_or(&vec![]) {
        if f["property"].as_str() != Some(prop) {
            continue;
        }
        out.push(KnownFinding {
            id: f["id"].as_str().unwrap_or("").to_string(),
            property: prop.to_string(),
            status: f["status"].as_str().unwrap_or("open").to_string(),
            what: f["what"].as_str().unwrap_or("").to_string(),
            toggle: f["attribution"]["toggle"].as_str().map(|s| s.to_string()),
            violation: f["violation"].as_str().unwrap_or("").to_string(),
            pinned_case: f["pinned_case"].clone(),
        });
    }
    out
}

pub fn replay_pinned(world: &dyn World, k: &KnownFinding) -> bool {
    if k.pinned_case.is_null() {
        return false;
    }
    let mut st = Stats::default();
    let r = std::panic::catch_unwind(std::panic::AssertUnwindSafe(|| world.check(&k.pinned_case, &mut st, &[])));
    match r {
        Ok((_, Err(v))) => k.violation.is_empty() || v.class == k.violation,
        Ok((_, Ok(()))) => false,
        Err(_) => k.violation == "panic",
    }
}
