//! Supervisor + worker engine.
//!
//!   sim check <PROP> <quick|thorough>     supervisor (forks workers of this same binary)
//!   sim worker <PROP> <tier> <seed> <i> <W> <ncases> <start>
//!   sim replay <file>
//!   sim gen <PROP> <tier> <seed> <case>   print the generated case
//!
//! Exit codes: 0 held, 1 violation (VIOLATION lines on stdout), 2 harness error.

use std::collections::{BTreeMap, BTreeSet, HashSet};
use std::io::{BufRead, BufReader, Write};
use std::os::unix::io::FromRawFd;
use std::process::{Child, Command, Stdio};
use std::sync::mpsc;
use std::time::{Duration, Instant};

use serde_json::{json, Value};
use simcore::rng::{fnv1a, Rng};
use simcore::world::{Stats, World};

mod registry;
use registry::{budget, world_for};

const DEFAULT_SEED: u64 = 20260925;
const VERIF: &str = "/verif";

fn seed_from_env() -> u64 {
    std::env::var("VERIF_SEED").ok().and_then(|s| s.trim().parse::<u64>().ok()).unwrap_or(DEFAULT_SEED)
}

fn domain(prop: &str) -> u64 {
    fnv1a(prop.as_bytes())
}

thread_local! {
    static LAST_PANIC: std::cell::RefCell<Option<(String, String)>> = const { std::cell::RefCell::new(None) };
}

#[global_allocator]
static GLOBAL: tendril_hist::ledger::Ledger = tendril_hist::ledger::Ledger;

/// K2: a `log` backend is installed in every worker and switched to the most verbose level for
/// one case in eight (a function of the case index), off otherwise: everything the code under test
/// formats only for its log lines runs there, with the output thrown away.
struct DiscardLogger;
impl log::Log for DiscardLogger {
    fn enabled(&self, _: &log::Metadata) -> bool {
        true
    }
    fn log(&self, record: &log::Record) {
        // force the (lazy) formatting of the arguments
        let _ = std::fmt::Write::write_fmt(&mut NullWriter, *record.args());
    }
    fn flush(&self) {}
}
struct NullWriter;
impl std::fmt::Write for NullWriter {
    fn write_str(&mut self, _: &str) -> std::fmt::Result {
        Ok(())
    }
}
static DISCARD_LOGGER: DiscardLogger = DiscardLogger;

fn install_logger() {
    let _ = log::set_logger(&DISCARD_LOGGER);
    log::set_max_level(log::LevelFilter::Off);
}

fn logging_for_case(idx: u64) -> bool {
    idx % 8 == 3
}

fn install_panic_hook() {
    std::panic::set_hook(Box::new(|info| {
        if tendril_hist::ledger::is_active() {
            // expected panics inside a ledger region must not leave allocations behind
            return;
        }
        let loc = info.location().map(|l| format!("{}:{}", l.file(), l.line())).unwrap_or_default();
        let msg = if let Some(s) = info.payload().downcast_ref::<&str>() {
            s.to_string()
        } else if let Some(s) = info.payload().downcast_ref::<String>() {
            s.clone()
        } else {
            "non-string panic payload".to_string()
        };
        LAST_PANIC.with(|p| *p.borrow_mut() = Some((msg, loc)));
    }));
}

fn take_panic() -> (String, String) {
    LAST_PANIC.with(|p| p.borrow_mut().take()).unwrap_or_default()
}

fn write_replay(prop: &str, world: &str, seed: u64, idx: u64, class: &str, detail: &str, case: &Value, tag: &str) -> String {
    let dir = format!("{VERIF}/replays");
    let _ = std::fs::create_dir_all(&dir);
    let path = format!("{dir}/{prop}-{tag}-s{seed}-c{idx}.json");
    let v = json!({
        "property": prop, "world": world, "violation": class, "detail": detail,
        "seed": seed, "case_index": idx, "case": case,
        "flavour": if plain_flavour(idx) { "plain" } else { "checked" },
    });
    let _ = std::fs::write(&path, serde_json::to_string_pretty(&v).unwrap());
    path
}

// ------------------------------------------------------------------ K3: build flavour
//
// The simulator is built twice from the same sources: "checked" (release with debug assertions and
// overflow checks: what `cargo test` exercises) and "plain" (release without them: what users ship).
// Which build executes a case is a function of the case index alone (one in four runs in the plain
// build), so a verdict never depends on the number of workers; replay files record the flavour.

fn plain_flavour(idx: u64) -> bool {
    idx % 4 == 3 && !single_flavour()
}

fn single_flavour() -> bool {
    std::env::var("VERIF_SINGLE_FLAVOUR").is_ok()
}

/// rank of `idx` among the indices of its own flavour
fn flavour_rank(idx: u64) -> u64 {
    if single_flavour() {
        idx
    } else if idx % 4 == 3 {
        idx / 4
    } else {
        idx - (idx + 1) / 4
    }
}

fn this_build_is_plain() -> bool {
    !cfg!(debug_assertions)
}

fn exe_for(plain: bool) -> std::path::PathBuf {
    let me = std::env::current_exe().unwrap();
    if plain == this_build_is_plain() {
        return me;
    }
    // target/release/sim <-> target/plain/sim
    let dir = me.parent().and_then(|d| d.parent()).map(|d| d.to_path_buf()).unwrap_or_default();
    dir.join(if plain { "plain" } else { "release" }).join("sim")
}

// ------------------------------------------------------------------ worker

fn worker(args: &[String]) -> i32 {
    let prop = &args[0];
    let thorough = args[1] == "thorough";
    let seed: u64 = args[2].parse().unwrap();
    let i: u64 = args[3].parse().unwrap();
    let ncases: u64 = args[5].parse().unwrap();
    let start: u64 = args[6].parse().unwrap();
    // protocol goes to a private fd; stdout (html5ever's profile output) goes to /dev/null
    let mut proto = unsafe {
        let fd = libc::dup(1);
        let devnull = libc::open(b"/dev/null\0".as_ptr() as *const libc::c_char, libc::O_WRONLY);
        libc::dup2(devnull, 1);
        std::fs::File::from_raw_fd(fd)
    };
    install_panic_hook();
    install_logger();
    // A memory-safety bug in the code under test can make a worker allocate without bound:
    // cap the address space so that it dies (and is reported as a crash) instead of taking
    // the machine down.
    unsafe {
        let lim = libc::rlimit { rlim_cur: 6 << 30, rlim_max: 6 << 30 };
        libc::setrlimit(libc::RLIMIT_AS, &lim);
    }
    let world = match world_for(prop) {
        Some(w) => w,
        None => return 2,
    };
    let mut stats = Stats::default();
    let mut n_viol = 0;
    let known = registry::load_known_findings(prop);
    let open_toggles: Vec<String> = known.iter().filter(|k| k.status == "open").filter_map(|k| k.toggle.clone()).collect();
    let mut idx = start;
    let mut samples_sent = 0;
    let w = 1u64; // (the loop below advances by one index and skips what is not this worker's)
    let lanes: u64 = args[4].parse().unwrap();
    while idx < ncases {
        // this worker's share: the indices of its build flavour whose rank among them falls in its lane
        if plain_flavour(idx) != this_build_is_plain() && !single_flavour() || flavour_rank(idx) % lanes != i % lanes {
            idx += 1;
            continue;
        }
        if this_build_is_plain() {
            stats.inc("K3_cases_run_in_the_plain_release_build");
        }
        let _ = writeln!(proto, "S {idx}");
        let mut rng = Rng::for_case(seed, domain(prop), idx);
        let case = world.gen(&mut rng, thorough);
        // K2, small cases only: html5ever's debug log dumps the whole token at every step, which
        // is quadratic on a 100 KB text token split character by character (40 s for one case)
        let log_on = logging_for_case(idx) && case.to_string().len() < 16 * 1024;
        log::set_max_level(if log_on { log::LevelFilter::Trace } else { log::LevelFilter::Off });
        if log_on {
            stats.inc("K2_cases_run_with_the_log_backend_at_trace_level");
        }
        let res = std::panic::catch_unwind(std::panic::AssertUnwindSafe(|| world.check(&case, &mut stats, &[])));
        match res {
            Ok((info, Ok(()))) => {
                let _ = writeln!(proto, "D {idx} {} {} {}", info.key, info.nontrivial as u8, info.digest);
                if i == 0 && samples_sent < 3 {
                    samples_sent += 1;
                    let _ = writeln!(proto, "M {}", json!({"case_index": idx, "case": case, "verdict": "held"}));
                }
            },
            Ok((info, Err(v0))) => {
                // known findings: does the case pass once the reference model emulates them?
                let mut v = v0;
                let mut attributed: Option<String> = None;
                if !open_toggles.is_empty() {
                    let mut st2 = Stats::default();
                    match std::panic::catch_unwind(std::panic::AssertUnwindSafe(|| world.check(&case, &mut st2, &open_toggles))) {
                        Ok((_, Ok(()))) => {
                            // find the single finding that explains it
                            let mut id = "several".to_string();
                            for k in known.iter().filter(|k| k.status == "open") {
                                if let Some(t) = &k.toggle {
                                    let mut st3 = Stats::default();
                                    if let Ok((_, Ok(()))) = std::panic::catch_unwind(std::panic::AssertUnwindSafe(|| world.check(&case, &mut st3, &[t.clone()]))) {
                                        id = k.id.clone();
                                        break;
                                    }
                                }
                            }
                            attributed = Some(id);
                        },
                        Ok((_, Err(v2))) => v = v2,
                        Err(_) => {},
                    }
                }
                if let Some(id) = attributed {
                    let _ = writeln!(proto, "K {idx} {} {} {}", info.key, info.digest, id);
                    idx += w;
                    continue;
                }
                n_viol += 1;
                if n_viol > 3 {
                    // beyond the third violation of a worker only count (no minimisation, no file)
                    let _ = writeln!(proto, "V {idx} {} {} {}", info.key, info.digest, json!({"class": v.class, "detail": v.detail, "replay": ""}));
                    idx += w;
                    continue;
                }
                // the verdict first: shrinking may be slow (or may itself kill the process on a tree
                // with memory errors), and the finding must not be lost with the worker
                let _ = writeln!(proto, "W {idx} {}", json!({"class": v.class, "detail": v.detail}));
                let budget = shrink_budget(&case, if thorough { 3000 } else { 1500 });
                let min = std::panic::catch_unwind(std::panic::AssertUnwindSafe(|| world.minimise(&case, &v.class, budget, &open_toggles))).unwrap_or(case.clone());
                // detail of the minimised case
                let mut st2 = Stats::default();
                let detail = match std::panic::catch_unwind(std::panic::AssertUnwindSafe(|| world.check(&min, &mut st2, &open_toggles))) {
                    Ok((_, Err(v2))) if v2.class == v.class => v2.detail,
                    _ => v.detail.clone(),
                };
                let path = write_replay(prop, world.world_name(), seed, idx, &v.class, &detail, &min, "viol");
                let _ = writeln!(proto, "V {idx} {} {} {}", info.key, info.digest, json!({"class": v.class, "detail": detail, "replay": path}));
            },
            Err(_) => {
                let (msg, loc) = take_panic();
                let harness = loc.contains("/verif/");
                if harness {
                    let _ = writeln!(proto, "H {idx} {}", json!({"msg": msg, "loc": loc}));
                } else if world.reports_panics() {
                    n_viol += 1;
                    let class = "panic";
                    let _ = writeln!(proto, "W {idx} {}", json!({"class": class, "detail": format!("panic at {loc}: {msg}")}));
                    let min = if n_viol <= 3 {
                        std::panic::catch_unwind(std::panic::AssertUnwindSafe(|| world.minimise(&case, class, shrink_budget(&case, 1500), &open_toggles))).unwrap_or(case.clone())
                    } else {
                        case.clone()
                    };
                    let detail = format!("panic at {loc}: {msg}");
                    // beyond the third violation of a worker only count (no file)
                    let path = if n_viol <= 3 { write_replay(prop, world.world_name(), seed, idx, class, &detail, &min, "viol") } else { String::new() };
                    let _ = writeln!(proto, "V {idx} 0 0 {}", json!({"class": class, "detail": detail, "replay": path}));
                } else {
                    let _ = writeln!(proto, "P {idx} {}", json!({"msg": msg, "loc": loc}));
                }
            },
        }
        idx += w;
    }
    let sets: BTreeMap<String, Vec<u64>> = stats.sets.iter().map(|(k, v)| (k.clone(), v.iter().cloned().collect())).collect();
    let _ = writeln!(proto, "E {}", json!({"counters": stats.counters, "sets": sets}));
    let _ = proto.flush();
    0
}

// ------------------------------------------------------------------ supervisor

enum Msg {
    Line(usize, String),
    Eof(usize),
}

struct WorkerState {
    child: Child,
    current: Option<(u64, Instant)>,
    done: bool,
    next_after_crash: u64,
    last_done: Option<u64>,
}

/// Worker slot `i` of `w`: the first `checked_lanes(w)` slots run the checked build, the others the plain one.
fn checked_lanes(w: usize) -> usize {
    if single_flavour() {
        w
    } else {
        (w - (w / 4).max(1)).max(1)
    }
}

fn total_slots(w: usize) -> usize {
    if single_flavour() {
        w
    } else {
        checked_lanes(w) + (w / 4).max(1)
    }
}

fn spawn_worker(prop: &str, tier: &str, seed: u64, i: usize, w: usize, ncases: u64, start: u64, tx: &mpsc::Sender<Msg>) -> Child {
    let nc = checked_lanes(w);
    let (plain, lane, lanes) = if i < nc { (this_build_is_plain() && single_flavour(), i, nc) } else { (true, i - nc, total_slots(w) - nc) };
    let exe = exe_for(plain);
    let mut child = Command::new(exe)
        .args(["worker", prop, tier, &seed.to_string(), &lane.to_string(), &lanes.to_string(), &ncases.to_string(), &start.to_string()])
        .stdin(Stdio::null())
        .stdout(Stdio::piped())
        .stderr(Stdio::null())
        .spawn()
        .expect("spawn worker");
    let out = child.stdout.take().unwrap();
    let tx = tx.clone();
    std::thread::spawn(move || {
        let r = BufReader::new(out);
        for line in r.lines() {
            match line {
                Ok(l) => {
                    if tx.send(Msg::Line(i, l)).is_err() {
                        return;
                    }
                },
                Err(_) => break,
            }
        }
        let _ = tx.send(Msg::Eof(i));
    });
    child
}

struct Finding {
    idx: u64,
    class: String,
    detail: String,
    replay: String,
}

/// Shrinking budget in candidate evaluations, scaled down for big cases so that the time spent
/// stays bounded (a function of the case only: the minimised file stays reproducible).
fn shrink_budget(case: &Value, base: usize) -> usize {
    let size = case.to_string().len().max(1);
    base.min(30_000_000 / size).max(40)
}

fn run_single_case_subprocess(prop: &str, tier: &str, seed: u64, idx: u64, timeout: Duration) -> Option<i32> {
    // Some(code) if it finished, None on timeout
    let exe = exe_for(plain_flavour(idx));
    let mut child = Command::new(exe)
        .args(["worker", prop, tier, &seed.to_string(), "0", "1", &(idx + 1).to_string(), &idx.to_string()])
        .stdin(Stdio::null())
        .stdout(Stdio::null())
        .stderr(Stdio::null())
        .spawn()
        .ok()?;
    let t0 = Instant::now();
    loop {
        match child.try_wait() {
            Ok(Some(st)) => return Some(st.code().unwrap_or(-1)),
            Ok(None) => {
                if t0.elapsed() > timeout {
                    let _ = child.kill();
                    let _ = child.wait();
                    return None;
                }
                std::thread::sleep(Duration::from_millis(20));
            },
            Err(_) => return Some(-2),
        }
    }
}

/// Does replaying `case` in a fresh process kill that process (signal / abnormal exit)?
fn replay_kills_process(prop: &str, world_name: &str, case: &Value, timeout: Duration, plain: bool) -> bool {
    let dir = format!("{VERIF}/replays/tmp");
    let _ = std::fs::create_dir_all(&dir);
    let path = format!("{dir}/min-{}.json", std::process::id());
    let v = json!({"property": prop, "world": world_name, "violation": "abort", "case": case});
    if std::fs::write(&path, v.to_string()).is_err() {
        return false;
    }
    let exe = exe_for(plain);
    let mut child = match Command::new(exe).args(["replay-inner", &path]).stdin(Stdio::null()).stdout(Stdio::null()).stderr(Stdio::null()).spawn() {
        Ok(c) => c,
        Err(_) => return false,
    };
    let t0 = Instant::now();
    let res = loop {
        match child.try_wait() {
            Ok(Some(st)) => break !matches!(st.code(), Some(0) | Some(1) | Some(2)),
            Ok(None) => {
                if t0.elapsed() > timeout {
                    let _ = child.kill();
                    let _ = child.wait();
                    break false;
                }
                std::thread::sleep(Duration::from_millis(2));
            },
            Err(_) => break false,
        }
    };
    let _ = std::fs::remove_file(&path);
    res
}

/// Greedy minimisation of a case that kills the worker: every candidate is judged in a subprocess.
fn minimise_crash(world: &dyn World, prop: &str, case: Value, budget: usize, plain: bool) -> Value {
    let mut cur = case;
    let mut used = 0;
    loop {
        let mut progressed = false;
        for c in world.shrink_candidates(&cur) {
            if used >= budget {
                return cur;
            }
            used += 1;
            if replay_kills_process(prop, world.world_name(), &c, Duration::from_secs(20), plain) {
                cur = c;
                progressed = true;
                break;
            }
        }
        if !progressed {
            return cur;
        }
    }
}

fn check(args: &[String]) -> i32 {
    let prop = args[0].clone();
    let tier = std::env::var("VERIF_TIER").ok().filter(|t| t == "quick" || t == "thorough").unwrap_or_else(|| args.get(1).cloned().unwrap_or_else(|| "quick".into()));
    let tier = if args.len() > 1 { args[1].clone() } else { tier };
    let thorough = tier == "thorough";
    let seed = seed_from_env();
    let world = match world_for(&prop) {
        Some(w) => w,
        None => {
            eprintln!("unknown property {prop}");
            return 2;
        },
    };
    let ncases: u64 = std::env::var("VERIF_CASES").ok().and_then(|s| s.parse().ok()).unwrap_or_else(|| budget(&prop, thorough));
    let w: usize = std::env::var("VERIF_WORKERS").ok().and_then(|s| s.parse().ok()).unwrap_or_else(|| {
        std::thread::available_parallelism().map(|n| n.get()).unwrap_or(4)
    });
    let case_budget = Duration::from_secs(if thorough { 60 } else { 30 });
    let t0 = Instant::now();
    println!("check property={prop} tier={tier} seed={seed} cases={ncases} workers={w}");

    let (tx, rx) = mpsc::channel::<Msg>();
    if !single_flavour() && !exe_for(true).exists() {
        eprintln!("HARNESS-ERROR: the plain-release build of the simulator ({}) is missing (run ./check build)", exe_for(true).display());
        return 2;
    }
    let mut workers: Vec<WorkerState> = (0..total_slots(w))
        .map(|i| WorkerState { child: spawn_worker(&prop, &tier, seed, i, w, ncases, 0, &tx), current: None, done: false, next_after_crash: 0, last_done: None })
        .collect();

    let mut stats = Stats::default();
    let mut evaluations: u64 = 0;
    let mut keys: HashSet<u64> = HashSet::new();
    let mut digests: BTreeMap<u64, u64> = BTreeMap::new();
    let mut findings: Vec<Finding> = vec![];
    let mut harness_errors: Vec<String> = vec![];
    let mut panicked_cases: u64 = 0;
    let mut crashed_cases: Vec<(u64, String)> = vec![];
    let mut hung_cases: Vec<u64> = vec![];
    let mut provisional: BTreeMap<u64, (String, String)> = BTreeMap::new();
    let mut crash_restarts = 0u32;
    let mut samples: Vec<Value> = vec![];
    let mut known_hits: BTreeMap<String, u64> = BTreeMap::new();

    loop {
        if workers.iter().all(|w| w.done) {
            break;
        }
        match rx.recv_timeout(Duration::from_millis(500)) {
            Ok(Msg::Line(i, l)) => {
                let mut parts = l.splitn(2, ' ');
                let tag = parts.next().unwrap_or("");
                let rest = parts.next().unwrap_or("");
                match tag {
                    "S" => {
                        let idx: u64 = rest.trim().parse().unwrap_or(0);
                        workers[i].current = Some((idx, Instant::now()));
                    },
                    "D" => {
                        let f: Vec<&str> = rest.split(' ').collect();
                        let idx: u64 = f[0].parse().unwrap_or(0);
                        let key: u64 = f[1].parse().unwrap_or(0);
                        let nontrivial = f[2] == "1";
                        let dg: u64 = f[3].parse().unwrap_or(0);
                        evaluations += 1;
                        if nontrivial {
                            keys.insert(key);
                        }
                        digests.insert(idx, dg);
                        workers[i].current = None;
                        workers[i].last_done = Some(idx);
                    },
                    "V" => {
                        let f: Vec<&str> = rest.splitn(4, ' ').collect();
                        let idx: u64 = f[0].parse().unwrap_or(0);
                        let dg: u64 = f[2].parse().unwrap_or(0);
                        let v: Value = serde_json::from_str(f[3]).unwrap_or(Value::Null);
                        evaluations += 1;
                        digests.insert(idx, dg ^ 0xBAD);
                        workers[i].last_done = Some(idx);
                        provisional.remove(&idx);
                        findings.push(Finding {
                            idx,
                            class: v["class"].as_str().unwrap_or("?").to_string(),
                            detail: v["detail"].as_str().unwrap_or("").to_string(),
                            replay: v["replay"].as_str().unwrap_or("").to_string(),
                        });
                        workers[i].current = None;
                    },
                    "W" => {
                        let f: Vec<&str> = rest.splitn(2, ' ').collect();
                        let idx: u64 = f[0].parse().unwrap_or(0);
                        let v: Value = serde_json::from_str(f.get(1).copied().unwrap_or("null")).unwrap_or(Value::Null);
                        provisional.insert(idx, (v["class"].as_str().unwrap_or("?").to_string(), v["detail"].as_str().unwrap_or("").to_string()));
                        // shrinking gets a watchdog budget of its own
                        if let Some((cur, _)) = workers[i].current {
                            workers[i].current = Some((cur, Instant::now()));
                        }
                    },
                    "K" => {
                        let f: Vec<&str> = rest.split(' ').collect();
                        let idx: u64 = f[0].parse().unwrap_or(0);
                        let dg: u64 = f[2].parse().unwrap_or(0);
                        evaluations += 1;
                        digests.insert(idx, dg ^ 0xF1D);
                        workers[i].last_done = Some(idx);
                        *known_hits.entry(f[3].to_string()).or_insert(0) += 1;
                        workers[i].current = None;
                    },
                    "P" => {
                        evaluations += 1;
                        panicked_cases += 1;
                        workers[i].current = None;
                    },
                    "H" => {
                        harness_errors.push(rest.to_string());
                        workers[i].current = None;
                    },
                    "M" => {
                        if let Ok(v) = serde_json::from_str::<Value>(rest) {
                            if samples.len() < 3 {
                                samples.push(v);
                            }
                        }
                    },
                    "E" => {
                        if let Ok(v) = serde_json::from_str::<Value>(rest) {
                            let mut st = Stats::default();
                            if let Some(c) = v["counters"].as_object() {
                                for (k, n) in c {
                                    st.add(k, n.as_u64().unwrap_or(0));
                                }
                            }
                            if let Some(s) = v["sets"].as_object() {
                                for (k, arr) in s {
                                    for x in arr.as_array().unwrap_or(&vec![]) {
                                        st.set_insert(k, x.as_u64().unwrap_or(0));
                                    }
                                }
                            }
                            stats.merge(&st);
                        }
                        workers[i].done = true;
                    },
                    _ => {},
                }
            },
            Ok(Msg::Eof(i)) => {
                if !workers[i].done {
                    // died without sending E: crash (abort / stack overflow / signal / kill by watchdog)
                    let status = workers[i].child.wait().ok();
                    let cur = workers[i].current.take();
                    if let Some((idx, _)) = cur {
                        if !hung_cases.contains(&idx) {
                            crashed_cases.push((idx, format!("{:?}", status)));
                        }
                        let next = idx + 1;
                        workers[i].next_after_crash = next;
                        crash_restarts += 1;
                        if next < ncases && crash_restarts <= 12 {
                            workers[i].child = spawn_worker(&prop, &tier, seed, i, w, ncases, next, &tx);
                        } else {
                            workers[i].done = true;
                        }
                    } else if let Some(last) = workers[i].last_done {
                        // died between two cases (e.g. heap corruption noticed by the allocator while
                        // the harness was cleaning up): attribute it to the case that had just finished
                        crashed_cases.push((last, format!("{:?} after the case had been judged", status)));
                        let next = last + 1;
                        crash_restarts += 1;
                        if next < ncases && crash_restarts <= 12 {
                            workers[i].child = spawn_worker(&prop, &tier, seed, i, w, ncases, next, &tx);
                        } else {
                            workers[i].done = true;
                        }
                    } else {
                        harness_errors.push(format!("worker {i} exited unexpectedly with {:?} before its first case", status));
                        workers[i].done = true;
                    }
                }
            },
            Err(mpsc::RecvTimeoutError::Timeout) => {},
            Err(mpsc::RecvTimeoutError::Disconnected) => break,
        }
        // watchdog
        for ws in workers.iter_mut() {
            if let Some((idx, since)) = ws.current {
                if since.elapsed() > case_budget && !hung_cases.contains(&idx) {
                    hung_cases.push(idx);
                    let _ = ws.child.kill();
                }
            }
        }
    }
    for ws in workers.iter_mut() {
        let _ = ws.child.wait();
    }

    // a worker that died or hung while SHRINKING a violation it had already reported: the
    // violation stands, with the case as generated
    for (idx, (class, detail)) in provisional.iter() {
        let mut rng = Rng::for_case(seed, domain(&prop), *idx);
        let case = world.gen(&mut rng, thorough);
        let path = write_replay(&prop, world.world_name(), seed, *idx, class, detail, &case, "viol");
        findings.push(Finding { idx: *idx, class: class.clone(), detail: format!("{detail} (not minimised: the worker did not survive shrinking)"), replay: path });
    }
    crashed_cases.retain(|(i, _)| !provisional.contains_key(i));
    hung_cases.retain(|i| !provisional.contains_key(i));

    // confirm crashes and hangs in isolation so that load cannot produce a false alarm
    let mut confirmed: Vec<Finding> = vec![];
    let confirm = world.reports_crashes();
    for (idx, st) in crashed_cases.iter().take(if confirm { 3 } else { 0 }) {
        let r = run_single_case_subprocess(&prop, &tier, seed, *idx, Duration::from_secs(120));
        if r != Some(0) {
            let mut rng = Rng::for_case(seed, domain(&prop), *idx);
            let case = world.gen(&mut rng, thorough);
            let case = if replay_kills_process(&prop, world.world_name(), &case, Duration::from_secs(60), plain_flavour(*idx)) {
                minimise_crash(world.as_ref(), &prop, case, 300, plain_flavour(*idx))
            } else {
                case
            };
            let detail = format!("worker process died while running the case ({st}); re-run alone: {:?}", r);
            let path = write_replay(&prop, world.world_name(), seed, *idx, "abort", &detail, &case, "crash");
            confirmed.push(Finding { idx: *idx, class: "abort".into(), detail, replay: path });
        }
    }
    for idx in hung_cases.iter().take(if confirm { 2 } else { 0 }) {
        let r = run_single_case_subprocess(&prop, &tier, seed, *idx, Duration::from_secs(120));
        if r.is_none() {
            let mut rng = Rng::for_case(seed, domain(&prop), *idx);
            let case = world.gen(&mut rng, thorough);
            let detail = "case did not finish within 120 s when re-run alone".to_string();
            let path = write_replay(&prop, world.world_name(), seed, *idx, "hang", &detail, &case, "hang");
            confirmed.push(Finding { idx: *idx, class: "hang".into(), detail, replay: path });
        } else if r != Some(0) {
            // slow under load the first time, dead when re-run alone: a crash like any other
            let mut rng = Rng::for_case(seed, domain(&prop), *idx);
            let case = world.gen(&mut rng, thorough);
            let detail = format!("case exceeded the watchdog, and the worker process died when it was re-run alone: {:?}", r);
            let path = write_replay(&prop, world.world_name(), seed, *idx, "abort", &detail, &case, "crash");
            confirmed.push(Finding { idx: *idx, class: "abort".into(), detail, replay: path });
        }
    }
    for (idx, st) in crashed_cases.iter().take(5) {
        println!("note: worker died in case {idx} ({st})");
    }
    for idx in hung_cases.iter().take(5) {
        println!("note: case {idx} exceeded the watchdog budget");
    }
    let mut skipped_crashes = 0u64;
    if world.reports_crashes() {
        findings.extend(confirmed);
    } else {
        skipped_crashes = (crashed_cases.len() + hung_cases.len()) as u64;
        let _ = confirmed;
    }
    findings.sort_by_key(|f| f.idx);
    let mut miri_summary = Value::Null;
    if prop == "C12" && std::env::var("VERIF_NO_MIRI").is_err() {
        let m = miri_part(thorough, seed);
        evaluations += m.executions;
        if let Some(h) = m.harness_error {
            harness_errors.push(h);
        }
        findings.extend(m.failures);
        miri_summary = m.summary;
    }

    // known findings: search hits were attributed in the workers (emulation toggles); the pinned
    // case of every open finding is re-executed here on every run
    let known = registry::load_known_findings(&prop);
    let new_violations: Vec<&Finding> = findings.iter().collect();
    let mut known_lines: Vec<String> = vec![];
    for k in &known {
        if k.status != "open" {
            continue;
        }
        let reproduced = registry::replay_pinned(world.as_ref(), k);
        let hits = known_hits.get(&k.id).cloned().unwrap_or(0);
        known_lines.push(format!(
            "KNOWN-FINDING: property={} {} [{}; pinned case {}; {} search hits attributed]",
            prop,
            k.what,
            k.id,
            if reproduced { "still reproduces" } else { "no longer reproduces" },
            hits
        ));
    }

    let wall = t0.elapsed().as_secs_f64();
    // evidence
    let mut coverage = json!({
        "evaluations": evaluations,
        "distinct_nontrivial": keys.len(),
        "rule": world.rule(),
        "samples": samples,
        "runs_per_hour": if wall > 0.0 { (evaluations as f64 / wall * 3600.0) as u64 } else { 0 },
        "seeds_per_hour": if wall > 0.0 { (3600.0 / wall) as u64 } else { 0 },
        "simulated_time_events": stats.counters.get("events").cloned().unwrap_or(0),
        "counters": stats.counters,
        "distinct_sets": stats.sets.iter().map(|(k, v)| (k.clone(), v.len())).collect::<BTreeMap<_, _>>(),
        "components": world.components(),
        "workers": w,
        "panicked_cases_not_this_property": panicked_cases,
        "crashed_or_hung_cases_not_this_property": skipped_crashes,
        "known_findings": known_lines,
    });
    if !miri_summary.is_null() {
        coverage["miri"] = miri_summary;
    }
    let zero_probes: Vec<String> = world.expected_probes().into_iter().filter(|p| stats.counters.get(*p).cloned().unwrap_or(0) == 0).map(|s| s.to_string()).collect();
    coverage["probes_stuck_at_zero"] = json!(zero_probes);
    let ev = json!({
        "property_id": prop,
        "tier": tier,
        "seed": seed,
        "level": "exploration",
        "coverage": coverage,
        "assumptions": world.assumptions(),
        "wall_s": wall,
        "violations": new_violations.len(),
    });
    let _ = std::fs::create_dir_all(format!("{VERIF}/evidence"));
    if std::env::var("VERIF_NO_EVIDENCE").is_err() {
        let _ = std::fs::write(format!("{VERIF}/evidence/{prop}.json"), serde_json::to_string_pretty(&ev).unwrap());
    }
    if let Ok(p) = std::env::var("VERIF_DUMP_DIGESTS") {
        let mut s = String::new();
        for (k, v) in &digests {
            s.push_str(&format!("{k} {v}\n"));
        }
        let _ = std::fs::write(p, s);
    }

    for p in &zero_probes {
        println!("warning: probe {p} stuck at zero");
    }
    println!(
        "evaluations={} distinct_nontrivial={} wall_s={:.1} panicked(other property)={} ",
        evaluations,
        keys.len(),
        wall,
        panicked_cases
    );
    for l in &known_lines {
        println!("{l}");
    }
    if !harness_errors.is_empty() {
        for h in harness_errors.iter().take(5) {
            eprintln!("HARNESS-ERROR: {h}");
        }
        return 2;
    }
    if evaluations + panicked_cases == 0 {
        eprintln!("HARNESS-ERROR: no case was evaluated");
        return 2;
    }
    if !new_violations.is_empty() {
        println!("{} violating cases in total", new_violations.len());
        for f in new_violations.iter().filter(|f| !f.replay.is_empty()).take(10) {
            println!("VIOLATION property={} replay={}", prop, f.replay);
            println!("  class={} case={} {}", f.class, f.idx, f.detail.chars().take(400).collect::<String>());
        }
        return 1;
    }
    0
}

// ------------------------------------------------------------------ Miri part of C12

const MIRI_DIR: &str = "/verif/sim/miri_tendril";

struct MiriRun {
    executions: u64,
    failures: Vec<Finding>,
    harness_error: Option<String>,
    summary: Value,
    value_mismatch_panics: u64,
}

fn miri_invoke(args: &[String], flags: &str) -> (bool, String) {
    let out = Command::new("cargo")
        .args(["+nightly", "miri", "run", "--offline", "--"])
        .args(args)
        .env("MIRIFLAGS", flags)
        .env("CARGO_NET_OFFLINE", "true")
        .current_dir(MIRI_DIR)
        .stdin(Stdio::null())
        .output();
    match out {
        Ok(o) => {
            let mut text = String::from_utf8_lossy(&o.stdout).to_string();
            text.push_str(&String::from_utf8_lossy(&o.stderr));
            (o.status.success(), text)
        },
        Err(e) => (false, format!("cannot start cargo miri: {e}")),
    }
}

fn miri_batch(label: &str, args: Vec<String>, nseeds: u32, seed: u64, out: &mut MiriRun) {
    let flags = format!("-Zmiri-permissive-provenance -Zmiri-preemption-rate=0.1 -Zmiri-many-seeds=0..{nseeds}");
    let (ok, text) = miri_invoke(&args, &flags);
    let oks = text.lines().filter(|l| l.starts_with("OK ")).count() as u64;
    out.executions += oks;
    if ok {
        return;
    }
    let failing = text.lines().find_map(|l| l.strip_prefix("FAILING SEED: ").and_then(|s| s.trim().parse::<u64>().ok()));
    // a harness assertion on VALUES (content differs from the model) is C11's business, not a
    // memory-management failure: note it and move on
    if text.contains("panicked at") && !text.contains("Undefined Behavior") && !text.contains("memory leaked") {
        out.value_mismatch_panics += 1;
        return;
    }
    let err_line = text.lines().find(|l| l.starts_with("error:")).unwrap_or("").to_string();
    match failing {
        Some(ms) if err_line.contains("Undefined Behavior") || err_line.contains("memory leaked") || err_line.contains("deadlock") || err_line.contains("panicked") || !err_line.is_empty() => {
            out.executions += 1;
            let class = if err_line.contains("Data race") {
                "miri-data-race"
            } else if err_line.contains("leaked") {
                "miri-leak"
            } else if err_line.contains("Undefined Behavior") {
                "miri-undefined-behavior"
            } else {
                "miri-abnormal-termination"
            };
            let dir = format!("{VERIF}/replays");
            let _ = std::fs::create_dir_all(&dir);
            let path = format!("{dir}/C12-miri-{label}-s{seed}-m{ms}.json");
            let v = json!({
                "property": "C12", "world": "miri", "violation": class, "detail": err_line,
                "seed": seed, "case": {"argv": args, "miri_seed": ms, "flags": "-Zmiri-permissive-provenance -Zmiri-preemption-rate=0.1"},
            });
            let _ = std::fs::write(&path, serde_json::to_string_pretty(&v).unwrap());
            out.failures.push(Finding { idx: ms, class: class.into(), detail: err_line, replay: path });
        },
        _ => {
            out.harness_error = Some(format!("cargo miri ({label}) failed without a Miri diagnostic: {}", text.lines().rev().take(6).collect::<Vec<_>>().join(" | ")));
        },
    }
}

fn miri_part(thorough: bool, seed: u64) -> MiriRun {
    let mut out = MiriRun { executions: 0, failures: vec![], harness_error: None, summary: Value::Null, value_mismatch_panics: 0 };
    let t0 = Instant::now();
    let (n_single, n_thread_batches, n_thread_seeds, steps) = if thorough { (1024u32, 24u32, 128u32, 60u32) } else { (96, 3, 48, 40) };
    // (a) single-thread histories: one history per interpreter seed
    miri_batch("single", vec!["single-any".into(), seed.to_string(), (if thorough { 80 } else { 40 }).to_string()], n_single, seed, &mut out);
    let singles = out.executions;
    // (b) real threads: a few fixed histories under many schedule seeds ...
    for b in 0..n_thread_batches {
        if out.harness_error.is_some() {
            break;
        }
        let hs = simcore::rng::mix(seed, b as u64) >> 8;
        miri_batch(&format!("threads{b}"), vec!["threads".into(), hs.to_string(), steps.to_string()], n_thread_seeds, seed, &mut out);
    }
    // ... and one history per schedule seed
    if out.harness_error.is_none() {
        miri_batch("threads-any", vec!["threads-any".into(), seed.to_string(), steps.to_string()], if thorough { 512 } else { 64 }, seed, &mut out);
    }
    out.summary = json!({
        "miri_single_thread_histories": singles,
        "miri_thread_scenario_executions": out.executions - singles,
        "miri_thread_histories_x_schedule_seeds": format!("{n_thread_batches} x {n_thread_seeds} + one history per seed"),
        "miri_flags": "-Zmiri-permissive-provenance -Zmiri-preemption-rate=0.1 -Zmiri-many-seeds",
        "miri_wall_s": t0.elapsed().as_secs_f64(),
        "miri_batches_stopped_by_a_value_assertion_other_property": out.value_mismatch_panics,
        "F10_preemption_between_threads": "every thread-scenario execution runs 3 threads + main under Miri's seeded scheduler",
    });
    out
}

fn miri_replay(v: &Value, path: &str) -> i32 {
    let argv: Vec<String> = v["case"]["argv"].as_array().map(|a| a.iter().filter_map(|x| x.as_str().map(|s| s.to_string())).collect()).unwrap_or_default();
    let ms = v["case"]["miri_seed"].as_u64().unwrap_or(0);
    let flags = format!("{} -Zmiri-seed={ms}", v["case"]["flags"].as_str().unwrap_or(""));
    let (ok, text) = miri_invoke(&argv, &flags);
    if ok {
        println!("replay: property C12 held on this Miri execution");
        return 0;
    }
    let err_line = text.lines().find(|l| l.starts_with("error:")).unwrap_or("");
    if err_line.is_empty() {
        eprintln!("HARNESS-ERROR: cargo miri failed without a diagnostic");
        return 2;
    }
    println!("VIOLATION property=C12 replay={path}");
    println!("  {err_line}");
    1
}

fn replay_inner(args: &[String]) -> i32 {
    install_panic_hook();
    // a replay runs with the log backend at its most verbose (a superset of what any case saw)
    install_logger();
    // (small cases only, as in the workers)
    let small = std::fs::metadata(&args[0]).map(|m| m.len() < 24 * 1024).unwrap_or(true);
    log::set_max_level(if small { log::LevelFilter::Trace } else { log::LevelFilter::Off });
    let path = &args[0];
    let text = match std::fs::read_to_string(path) {
        Ok(t) => t,
        Err(e) => {
            eprintln!("cannot read {path}: {e}");
            return 2;
        },
    };
    let v: Value = match serde_json::from_str(&text) {
        Ok(v) => v,
        Err(e) => {
            eprintln!("bad replay file: {e}");
            return 2;
        },
    };
    let prop = v["property"].as_str().unwrap_or("");
    let class = v["violation"].as_str().unwrap_or("");
    if v["world"].as_str() == Some("miri") {
        return miri_replay(&v, path);
    }
    let world = match world_for(prop) {
        Some(w) => w,
        None => return 2,
    };
    // stdout of html5ever's profile option must not drown the verdict
    let mut st = Stats::default();
    let res = std::panic::catch_unwind(std::panic::AssertUnwindSafe(|| world.check(&v["case"], &mut st, &[])));
    match res {
        Ok((_, Ok(()))) => {
            println!("replay: property {prop} held on this case (recorded violation class: {class})");
            0
        },
        Ok((_, Err(viol))) => {
            println!("VIOLATION property={prop} replay={path}");
            println!("  class={} (recorded: {}) {}", viol.class, class, viol.detail);
            1
        },
        Err(_) => {
            let (msg, loc) = take_panic();
            if loc.contains("/verif/") {
                eprintln!("HARNESS-ERROR: panic at {loc}: {msg}");
                return 2;
            }
            println!("VIOLATION property={prop} replay={path}");
            println!("  class=panic (recorded: {class}) panic at {loc}: {msg}");
            1
        },
    }
}

/// `replay <file>`: executes the case in a child process so that a case which kills the process
/// (stack overflow, SIGSEGV under the guard-page allocator, abort) or never returns is still
/// reported as a VIOLATION with exit code 1.
fn replay(args: &[String]) -> i32 {
    let path = &args[0];
    let plain = std::fs::read_to_string(path).ok().and_then(|t| serde_json::from_str::<Value>(&t).ok()).map(|v| v["flavour"].as_str() == Some("plain")).unwrap_or(false);
    let exe = exe_for(plain);
    let mut child = match Command::new(exe).args(["replay-inner", path]).stdin(Stdio::null()).spawn() {
        Ok(c) => c,
        Err(e) => {
            eprintln!("HARNESS-ERROR: cannot spawn replay process: {e}");
            return 2;
        },
    };
    let t0 = Instant::now();
    let prop = std::fs::read_to_string(path).ok().and_then(|t| serde_json::from_str::<Value>(&t).ok()).and_then(|v| v["property"].as_str().map(|s| s.to_string())).unwrap_or_default();
    loop {
        match child.try_wait() {
            Ok(Some(st)) => match st.code() {
                Some(c @ 0..=2) => return c,
                other => {
                    println!("VIOLATION property={prop} replay={path}");
                    println!("  class=abort the process executing the case died ({:?})", other.map(|c| c.to_string()).unwrap_or_else(|| format!("{st}")));
                    return 1;
                },
            },
            Ok(None) => {
                if t0.elapsed() > Duration::from_secs(600) {
                    let _ = child.kill();
                    let _ = child.wait();
                    println!("VIOLATION property={prop} replay={path}");
                    println!("  class=hang the case did not finish within 600 s");
                    return 1;
                }
                std::thread::sleep(Duration::from_millis(10));
            },
            Err(_) => return 2,
        }
    }
}

fn gen_cmd(args: &[String]) -> i32 {
    let prop = &args[0];
    let thorough = args[1] == "thorough";
    let seed: u64 = args[2].parse().unwrap();
    let idx: u64 = args[3].parse().unwrap();
    let world = world_for(prop).unwrap();
    let mut rng = Rng::for_case(seed, domain(prop), idx);
    let case = world.gen(&mut rng, thorough);
    println!("{}", serde_json::to_string_pretty(&json!({"property": prop, "world": world.world_name(), "violation": "", "seed": seed, "case_index": idx, "case": case})).unwrap());
    0
}

fn main() {
    let args: Vec<String> = std::env::args().skip(1).collect();
    if args.is_empty() {
        eprintln!("usage: sim check|worker|replay|gen ...");
        std::process::exit(2);
    }
    let _ = BTreeSet::<u8>::new();
    let code = match args[0].as_str() {
        "check" => check(&args[1..]),
        "worker" => worker(&args[1..]),
        "replay" => replay(&args[1..]),
        "replay-inner" => replay_inner(&args[1..]),
        "gen" => gen_cmd(&args[1..]),
        _ => 2,
    };
    std::process::exit(code);
}
