// placeholder
