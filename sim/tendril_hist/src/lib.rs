//! Seeded operation histories over pools of tendrils, each paired with a `Vec<u8>` model
//! (C11), an allocation ledger usable as global allocator (C12, native), and the same
//! histories for Miri (C12).  Depends on `tendril` only.

pub mod ledger;
pub mod rng;

use std::panic::{catch_unwind, AssertUnwindSafe};

use rng::Rng;
use tendril::fmt::{self, Format};
use tendril::{Atomic, Atomicity, NonAtomic, SendTendril, SubtendrilError, Tendril};

pub const POOL: usize = 6;

#[derive(Clone, Debug, PartialEq, Eq)]
pub struct Op {
    pub kind: u8,
    pub a: u32,
    pub b: u32,
    pub c: u32,
    pub data: Vec<u8>,
}

pub const K_NEW: u8 = 0;
pub const K_WITH_CAPACITY: u8 = 1;
pub const K_FROM_BYTES: u8 = 2;
pub const K_TRY_PUSH_BYTES: u8 = 3;
pub const K_PUSH_TENDRIL: u8 = 4;
pub const K_TRY_POP_FRONT: u8 = 5;
pub const K_TRY_POP_BACK: u8 = 6;
pub const K_POP_FRONT_PANIC: u8 = 7;
pub const K_POP_BACK_PANIC: u8 = 8;
pub const K_TRY_SUBTENDRIL: u8 = 9;
pub const K_SUBTENDRIL_PANIC: u8 = 10;
pub const K_CLONE: u8 = 11;
pub const K_CLEAR: u8 = 12;
pub const K_RESERVE: u8 = 13;
pub const K_DROP: u8 = 14;
pub const K_SEND_ROUND_TRIP: u8 = 15;
pub const K_INTO_BYTES_ROUND_TRIP: u8 = 16;
pub const K_AS_BYTES_CHECK: u8 = 17;
pub const K_TRY_PUSH_CHAR: u8 = 18;
pub const K_POP_FRONT_CHAR: u8 = 19;
pub const K_POP_FRONT_CHAR_RUN: u8 = 20;
pub const K_DEREF_MUT: u8 = 21;
pub const K_WRITE_ALL: u8 = 22;
pub const K_EXTEND_WITH_BYTE: u8 = 23;
pub const K_EXTEND_ITER: u8 = 24;
pub const K_SUBSET_ROUND_TRIP: u8 = 25;
pub const K_REINTERPRET_FROM_BYTES: u8 = 26;
pub const K_STRING_ROUND_TRIP: u8 = 27;
pub const K_EQ_ORD_CHECK: u8 = 28;
pub const K_PUSH_SELF_CLONE: u8 = 29;
pub const K_PUSH_BIG: u8 = 30;
pub const K_READ_TO_TENDRIL: u8 = 31;
pub const K_CLONE_FROM: u8 = 32;
pub const K_REJOIN_VIA_BYTES: u8 = 33;
pub const K_TRAIT_EXTRAS: u8 = 34;
pub const K_READ_BIG: u8 = 35;
pub const N_KINDS: u8 = 36;

pub fn kind_name(k: u8) -> &'static str {
    match k {
        K_NEW => "new",
        K_WITH_CAPACITY => "with_capacity",
        K_FROM_BYTES => "try_from_byte_slice",
        K_TRY_PUSH_BYTES => "try_push_bytes",
        K_PUSH_TENDRIL => "push_tendril",
        K_TRY_POP_FRONT => "try_pop_front",
        K_TRY_POP_BACK => "try_pop_back",
        K_POP_FRONT_PANIC => "pop_front",
        K_POP_BACK_PANIC => "pop_back",
        K_TRY_SUBTENDRIL => "try_subtendril",
        K_SUBTENDRIL_PANIC => "subtendril",
        K_CLONE => "clone",
        K_CLEAR => "clear",
        K_RESERVE => "reserve",
        K_DROP => "drop",
        K_SEND_ROUND_TRIP => "into_send+from",
        K_INTO_BYTES_ROUND_TRIP => "into_bytes+try_reinterpret",
        K_AS_BYTES_CHECK => "as_bytes",
        K_TRY_PUSH_CHAR => "try_push_char",
        K_POP_FRONT_CHAR => "pop_front_char",
        K_POP_FRONT_CHAR_RUN => "pop_front_char_run",
        K_DEREF_MUT => "deref_mut",
        K_WRITE_ALL => "io::Write::write_all",
        K_EXTEND_WITH_BYTE => "extend_with_byte",
        K_EXTEND_ITER => "extend",
        K_SUBSET_ROUND_TRIP => "subset/superset round trip",
        K_REINTERPRET_FROM_BYTES => "bytes.try_reinterpret",
        K_STRING_ROUND_TRIP => "String round trip",
        K_EQ_ORD_CHECK => "eq/ord",
        K_PUSH_SELF_CLONE => "push_tendril(clone of self)",
        K_PUSH_BIG => "push_big",
        K_READ_TO_TENDRIL => "read_to_tendril",
        K_CLONE_FROM => "clone_from",
        K_REJOIN_VIA_BYTES => "adjacent Bytes views reinterpreted + push_tendril",
        K_TRAIT_EXTRAS => "trait impls (Hash/Ord/Borrow/Extend<&Tendril>/FromStr/fmt::Write/…)",
        K_READ_BIG => "read_to_tendril (big stream)",
        _ => "?",
    }
}

#[derive(Clone, Debug)]
pub struct Fail {
    pub class: String,
    pub detail: String,
}

fn fail(class: &str, mut detail: String) -> Fail {
    if detail.len() > 3000 {
        let mut cut = 3000;
        while !detail.is_char_boundary(cut) {
            cut -= 1;
        }
        detail.truncate(cut);
        detail.push_str("… (truncated)");
    }
    Fail { class: class.to_string(), detail }
}

/// Sizes of the "big" operations: around powers of two and just below page multiples, the
/// thresholds growth policies, block-wise copies and 16-bit counters hang on.
pub const BIG_BASES: &[u32] = &[4096, 8192, 65536, 131072, 1 << 20, (1 << 20) + 3 * 4096, 1 << 21, 3 << 20];

pub fn big_size(b: u32, c: u32) -> u32 {
    let base = BIG_BASES[b as usize % BIG_BASES.len()];
    base - 20 + (c % 41)
}

/// An iterator whose `size_hint` is wrong (it is only advisory in safe Rust).
pub struct Liar<I> {
    pub inner: I,
    pub claim: usize,
}

impl<I: Iterator> Iterator for Liar<I> {
    type Item = I::Item;
    fn next(&mut self) -> Option<I::Item> {
        self.inner.next()
    }
    fn size_hint(&self) -> (usize, Option<usize>) {
        (self.claim, Some(self.claim))
    }
}

// ------------------------------------------------------------------ independent validators

pub fn wtf8_valid(buf: &[u8]) -> bool {
    // generalized UTF-8 (surrogates allowed) without a lead surrogate directly followed by a trail
    let mut i = 0;
    let mut prev_lead = false;
    while i < buf.len() {
        let b0 = buf[i];
        let (len, min, mut cp) = if b0 < 0x80 {
            (1, 0u32, b0 as u32)
        } else if (0xC0..0xE0).contains(&b0) {
            (2, 0x80, (b0 & 0x1F) as u32)
        } else if (0xE0..0xF0).contains(&b0) {
            (3, 0x800, (b0 & 0x0F) as u32)
        } else if (0xF0..0xF8).contains(&b0) {
            (4, 0x10000, (b0 & 0x07) as u32)
        } else {
            return false;
        };
        if i + len > buf.len() {
            return false;
        }
        for k in 1..len {
            let b = buf[i + k];
            if b & 0xC0 != 0x80 {
                return false;
            }
            cp = (cp << 6) | (b & 0x3F) as u32;
        }
        if cp < min || cp > 0x10FFFF {
            return false;
        }
        let lead = (0xD800..0xDC00).contains(&cp);
        let trail = (0xDC00..0xE000).contains(&cp);
        if trail && prev_lead {
            return false;
        }
        prev_lead = lead;
        i += len;
    }
    true
}

fn enc_generalized(cp: u32, out: &mut Vec<u8>) {
    if cp < 0x80 {
        out.push(cp as u8);
    } else if cp < 0x800 {
        out.push(0xC0 | (cp >> 6) as u8);
        out.push(0x80 | (cp & 0x3F) as u8);
    } else if cp < 0x10000 {
        out.push(0xE0 | (cp >> 12) as u8);
        out.push(0x80 | ((cp >> 6) & 0x3F) as u8);
        out.push(0x80 | (cp & 0x3F) as u8);
    } else {
        out.push(0xF0 | (cp >> 18) as u8);
        out.push(0x80 | ((cp >> 12) & 0x3F) as u8);
        out.push(0x80 | ((cp >> 6) & 0x3F) as u8);
        out.push(0x80 | (cp & 0x3F) as u8);
    }
}

// ------------------------------------------------------------------ per-format spec

pub trait FmtSpec: Format + Sized + 'static {
    const NAME: &'static str;
    /// model's own idea of validity (never tendril's)
    fn valid(buf: &[u8]) -> bool;
    /// model of appending valid `rhs` to valid `lhs`
    fn concat(lhs: &mut Vec<u8>, rhs: &[u8]) {
        lhs.extend_from_slice(rhs);
    }
    fn gen_valid(rng: &mut Rng, len: usize) -> Vec<u8>;
    fn encode_char(_c: char) -> Option<Vec<u8>> {
        None
    }
    /// decode the first character of a valid buffer: (char, byte length)
    fn first_char(_buf: &[u8]) -> Option<(char, usize)> {
        None
    }
    fn try_push_char<A: Atomicity>(_t: &mut Tendril<Self, A>, _c: char) -> Option<Result<(), ()>> {
        None
    }
    fn pop_front_char<A: Atomicity>(_t: &mut Tendril<Self, A>) -> Option<Option<char>> {
        None
    }
    fn pop_front_char_run<A: Atomicity>(_t: &mut Tendril<Self, A>, _k: u32) -> Option<Option<(Tendril<Self, A>, u32)>> {
        None
    }
    /// a write through DerefMut; returns false when unsupported
    fn deref_mut_write<A: Atomicity>(_t: &mut Tendril<Self, A>, _model: &mut Vec<u8>, _pos: u32, _val: u8) -> bool {
        false
    }
    fn bytes_only<A: Atomicity>(_t: &mut Tendril<Self, A>, _model: &mut Vec<u8>, _op: &Op) -> bool {
        false
    }
    fn extend_iter<A: Atomicity>(_t: &mut Tendril<Self, A>, _model: &mut Vec<u8>, _data: &[u8], _claim: usize) -> bool {
        false
    }
    /// subset / superset round trip; returns Err(detail) on a wrong answer
    fn subset_round_trip<A: Atomicity>(t: Tendril<Self, A>, _model: &[u8]) -> Result<Tendril<Self, A>, String> {
        Ok(t)
    }
    fn string_round_trip<A: Atomicity>(t: Tendril<Self, A>) -> Tendril<Self, A> {
        t
    }
    /// two byte strings, each valid alone, whose concatenation the format has to repair
    fn seam_pair(_k: u32) -> Option<(Vec<u8>, Vec<u8>)> {
        None
    }
    /// format-specific trait impls (Ord, Borrow, PartialEq<str>, FromStr, fmt::Write, format!, From<&Slice>, as_superset);
    /// may append to the tendril and its model; Err(detail) on a wrong answer
    fn extras<A: Atomicity>(_t: &mut Tendril<Self, A>, _model: &mut Vec<u8>, _other: &Tendril<Self, A>, _other_model: &[u8], _k: u32) -> Result<(), String> {
        Ok(())
    }
}

/// FNV-1a as a `Hasher`: `Tendril::hash` must feed it exactly what `<[u8]>::hash` feeds it.
pub struct Fnv(pub u64);
impl std::hash::Hasher for Fnv {
    fn finish(&self) -> u64 {
        self.0
    }
    fn write(&mut self, bytes: &[u8]) {
        for b in bytes {
            self.0 = (self.0 ^ *b as u64).wrapping_mul(0x100000001B3);
        }
    }
}
fn fnv_of<T: std::hash::Hash + ?Sized>(x: &T) -> u64 {
    let mut h = Fnv(0xcbf29ce484222325);
    x.hash(&mut h);
    std::hash::Hasher::finish(&h)
}

fn classify(k: u32, c: char) -> u32 {
    match k % 4 {
        0 => c.is_ascii_whitespace() as u32,
        1 => c.is_alphabetic() as u32,
        2 => (c as u32) % 3,
        _ => ((c as u32) < 0x80) as u32,
    }
}

fn gen_ascii(rng: &mut Rng, len: usize) -> Vec<u8> {
    (0..len).map(|_| *rng.pick(b"abcXYZ 09\n\t<&")).collect()
}

fn gen_utf8(rng: &mut Rng, len: usize) -> Vec<u8> {
    let mut s = String::new();
    while s.len() < len {
        let c = *rng.pick(&['a', 'b', ' ', 'Z', '\n', 'é', 'ß', '中', '€', '😀', '\u{10ffff}', '\0', '<', '\u{d55c}', '\u{d7ff}', '\u{e000}']);
        if s.len() + c.len_utf8() > len {
            s.push('x');
        } else {
            s.push(c);
        }
    }
    s.into_bytes()
}

impl FmtSpec for fmt::Bytes {
    const NAME: &'static str = "Bytes";
    fn extras<A: Atomicity>(t: &mut Tendril<Self, A>, model: &mut Vec<u8>, other: &Tendril<Self, A>, other_model: &[u8], k: u32) -> Result<(), String> {
        use std::borrow::Borrow;
        if Ord::cmp(&*t, other) != model[..].cmp(other_model) || PartialOrd::partial_cmp(&*t, other) != Some(model[..].cmp(other_model)) {
            return Err("cmp / partial_cmp differs from the byte-wise order of the models".into());
        }
        let b: &[u8] = (*t).borrow();
        if b != &model[..] {
            return Err("Borrow<[u8]> differs from the model".into());
        }
        if k % 2 == 0 {
            let f: Tendril<Self, A> = Tendril::from(other_model);
            if &*f != other_model {
                return Err("From<&[u8]> differs from its input".into());
            }
            t.push_tendril(&f);
            model.extend_from_slice(other_model);
        }
        Ok(())
    }
    fn valid(_: &[u8]) -> bool {
        true
    }
    fn gen_valid(rng: &mut Rng, len: usize) -> Vec<u8> {
        (0..len).map(|_| rng.below(256) as u8).collect()
    }
    fn deref_mut_write<A: Atomicity>(t: &mut Tendril<Self, A>, model: &mut Vec<u8>, pos: u32, val: u8) -> bool {
        if model.is_empty() {
            return true;
        }
        let p = pos as usize % model.len();
        t[p] = val;
        model[p] = val;
        true
    }
    fn bytes_only<A: Atomicity>(t: &mut Tendril<Self, A>, model: &mut Vec<u8>, op: &Op) -> bool {
        use std::io::Write;
        match op.kind {
            K_WRITE_ALL => {
                t.write_all(&op.data).unwrap();
                let n = t.write(&op.data).unwrap();
                assert_eq!(n, op.data.len());
                t.flush().unwrap();
                model.extend_from_slice(&op.data);
                model.extend_from_slice(&op.data);
                true
            },
            K_EXTEND_WITH_BYTE => {
                t.extend_with_byte(op.b, op.c as u8);
                model.extend(std::iter::repeat(op.c as u8).take(op.b as usize));
                true
            },
            K_READ_TO_TENDRIL => {
                // a scripted reader: short reads of op.b bytes, `Interrupted` on every third call
                // (bit 0 of op.c), a hard error once (op.c / 4) % (len + 1) bytes were delivered
                // (bit 1).  Whatever happens, the tendril grows by exactly the bytes delivered.
                use tendril::ReadExt;
                struct R<'a> {
                    data: &'a [u8],
                    pos: usize,
                    step: usize,
                    plan: u32,
                    err_at: usize,
                    calls: u32,
                }
                impl<'a> std::io::Read for R<'a> {
                    fn read(&mut self, buf: &mut [u8]) -> std::io::Result<usize> {
                        self.calls += 1;
                        if self.plan & 1 == 1 && self.calls % 3 == 1 {
                            return Err(std::io::Error::new(std::io::ErrorKind::Interrupted, "simulated EINTR"));
                        }
                        let mut n = self.step.max(1).min(buf.len()).min(self.data.len() - self.pos);
                        if self.plan & 2 == 2 {
                            if self.pos >= self.err_at {
                                return Err(std::io::Error::new(std::io::ErrorKind::WouldBlock, "simulated hard error"));
                            }
                            n = n.min(self.err_at - self.pos);
                        }
                        buf[..n].copy_from_slice(&self.data[self.pos..self.pos + n]);
                        self.pos += n;
                        Ok(n)
                    }
                }
                let err_at = (op.c as usize / 4) % (op.data.len() + 1);
                let mut r = R { data: &op.data, pos: 0, step: op.b as usize, plan: op.c, err_at, calls: 0 };
                let res = r.read_to_tendril(t);
                model.extend_from_slice(&op.data[..r.pos]);
                let ok = match res {
                    Ok(n) => op.c & 2 == 0 && n == op.data.len() && r.pos == op.data.len(),
                    Err(_) => op.c & 2 == 2,
                };
                if !ok {
                    // a wrong return value is made visible as a value difference
                    model.extend_from_slice(b"<read_to_tendril returned the wrong result>");
                }
                true
            },
            K_READ_BIG => {
                // a long stream (tens of KiB to a MiB, content a function of the position) from a
                // reader that fills whatever it is offered or delivers fixed-size pieces, and reports
                // `Interrupted` once, at call number 1 + (c / 64) % 20, or on every third call
                use tendril::ReadExt;
                struct R {
                    size: usize,
                    pos: usize,
                    step: usize,
                    calls: u32,
                    intr_at: u32,
                    every_third: bool,
                }
                impl std::io::Read for R {
                    fn read(&mut self, buf: &mut [u8]) -> std::io::Result<usize> {
                        self.calls += 1;
                        if self.calls == self.intr_at || (self.every_third && self.calls % 3 == 2) {
                            return Err(std::io::Error::new(std::io::ErrorKind::Interrupted, "simulated EINTR"));
                        }
                        let n = self.step.min(buf.len()).min(self.size - self.pos);
                        for (k, b) in buf[..n].iter_mut().enumerate() {
                            *b = ((self.pos + k) as u32).wrapping_mul(31).wrapping_add(7) as u8;
                        }
                        self.pos += n;
                        Ok(n)
                    }
                }
                let size = big_size(op.b % 6, op.c) as usize + if op.c & 32 == 32 { 131040 } else { 0 };
                let step = [usize::MAX, usize::MAX, 4096, 65536, 1000, 33][(op.c as usize / 2048) % 6];
                let mut r = R { size, pos: 0, step, calls: 0, intr_at: 1 + (op.c / 64) % 20, every_third: (op.c / 1024) % 2 == 1 && step > 4000 };
                let res = r.read_to_tendril(t);
                model.extend((0..r.pos).map(|k| (k as u32).wrapping_mul(31).wrapping_add(7) as u8));
                if !matches!(res, Ok(n) if n == size) || r.pos != size {
                    model.extend_from_slice(b"<read_to_tendril stopped before the end of the stream or returned the wrong count>");
                }
                true
            },
            _ => false,
        }
    }
    fn extend_iter<A: Atomicity>(t: &mut Tendril<Self, A>, model: &mut Vec<u8>, data: &[u8], claim: usize) -> bool {
        t.extend(data.iter());
        t.extend(data.iter().cloned());
        t.extend([data, data].iter().cloned());
        // size_hint is advisory: an iterator that claims `claim` items and yields data.len()
        t.extend(Liar { inner: data.iter().cloned(), claim });
        t.extend(Liar { inner: data.iter(), claim: claim / 2 });
        let collected: Tendril<Self, A> = Liar { inner: data.iter().cloned(), claim }.collect();
        t.push_tendril(&collected);
        for _ in 0..7 {
            model.extend_from_slice(data);
        }
        true
    }
}

impl FmtSpec for fmt::ASCII {
    const NAME: &'static str = "ASCII";
    fn extras<A: Atomicity>(t: &mut Tendril<Self, A>, model: &mut Vec<u8>, _other: &Tendril<Self, A>, other_model: &[u8], _k: u32) -> Result<(), String> {
        let s = std::str::from_utf8(model).map_err(|_| "model not ASCII".to_string())?;
        if !(*t == *s) || (*t == *std::str::from_utf8(other_model).unwrap_or("\u{e9}")) != (&model[..] == other_model) {
            return Err("PartialEq<str> differs from the model".into());
        }
        let u: &Tendril<fmt::UTF8, A> = t.as_superset();
        let l: &Tendril<fmt::Latin1, A> = t.as_superset();
        if u.as_bytes().as_ref() as &[u8] != &model[..] || l.as_bytes().as_ref() as &[u8] != &model[..] || &**u != s {
            return Err("as_superset view differs from the model".into());
        }
        Ok(())
    }
    fn valid(buf: &[u8]) -> bool {
        buf.iter().all(|b| *b < 0x80)
    }
    fn gen_valid(rng: &mut Rng, len: usize) -> Vec<u8> {
        gen_ascii(rng, len)
    }
    fn encode_char(c: char) -> Option<Vec<u8>> {
        if (c as u32) < 0x80 {
            Some(vec![c as u8])
        } else {
            None
        }
    }
    fn first_char(buf: &[u8]) -> Option<(char, usize)> {
        buf.first().map(|b| (*b as char, 1))
    }
    fn try_push_char<A: Atomicity>(t: &mut Tendril<Self, A>, c: char) -> Option<Result<(), ()>> {
        Some(t.try_push_char(c))
    }
    fn pop_front_char<A: Atomicity>(t: &mut Tendril<Self, A>) -> Option<Option<char>> {
        Some(t.pop_front_char())
    }
    fn pop_front_char_run<A: Atomicity>(t: &mut Tendril<Self, A>, k: u32) -> Option<Option<(Tendril<Self, A>, u32)>> {
        Some(t.pop_front_char_run(|c| classify(k, c)))
    }
    fn subset_round_trip<A: Atomicity>(t: Tendril<Self, A>, model: &[u8]) -> Result<Tendril<Self, A>, String> {
        let up: Tendril<fmt::UTF8, A> = t.into_superset();
        if up.as_bytes().as_ref() as &[u8] != model {
            return Err("ASCII into_superset::<UTF8> changed the bytes".into());
        }
        let lat: Tendril<fmt::Latin1, A> = up.try_into_subset::<fmt::ASCII>().map_err(|_| "UTF8.try_into_subset::<ASCII> failed on ASCII content".to_string())?.into_superset();
        lat.try_into_subset::<fmt::ASCII>().map_err(|_| "Latin1.try_into_subset::<ASCII> failed on ASCII content".to_string())
    }
}

impl FmtSpec for fmt::Latin1 {
    const NAME: &'static str = "Latin1";
    fn valid(_: &[u8]) -> bool {
        true
    }
    fn gen_valid(rng: &mut Rng, len: usize) -> Vec<u8> {
        (0..len).map(|_| rng.below(256) as u8).collect()
    }
    fn encode_char(c: char) -> Option<Vec<u8>> {
        if (c as u32) < 0x100 {
            Some(vec![c as u32 as u8])
        } else {
            None
        }
    }
    fn first_char(buf: &[u8]) -> Option<(char, usize)> {
        buf.first().map(|b| (*b as char, 1))
    }
    fn try_push_char<A: Atomicity>(t: &mut Tendril<Self, A>, c: char) -> Option<Result<(), ()>> {
        Some(t.try_push_char(c))
    }
    fn pop_front_char<A: Atomicity>(t: &mut Tendril<Self, A>) -> Option<Option<char>> {
        Some(t.pop_front_char())
    }
    fn pop_front_char_run<A: Atomicity>(t: &mut Tendril<Self, A>, k: u32) -> Option<Option<(Tendril<Self, A>, u32)>> {
        Some(t.pop_front_char_run(|c| classify(k, c)))
    }
    fn subset_round_trip<A: Atomicity>(t: Tendril<Self, A>, model: &[u8]) -> Result<Tendril<Self, A>, String> {
        let ascii = model.iter().all(|b| *b < 0x80);
        match t.try_into_subset::<fmt::ASCII>() {
            Ok(a) => {
                if !ascii {
                    return Err("Latin1.try_into_subset::<ASCII> succeeded on non-ASCII content".into());
                }
                Ok(a.into_superset())
            },
            Err(orig) => {
                if ascii {
                    return Err("Latin1.try_into_subset::<ASCII> failed on ASCII content".into());
                }
                Ok(orig)
            },
        }
    }
}

impl FmtSpec for fmt::UTF8 {
    const NAME: &'static str = "UTF8";
    fn extras<A: Atomicity>(t: &mut Tendril<Self, A>, model: &mut Vec<u8>, other: &Tendril<Self, A>, other_model: &[u8], k: u32) -> Result<(), String> {
        use std::borrow::Borrow;
        use std::fmt::Write;
        if Ord::cmp(&*t, other) != model[..].cmp(other_model) || PartialOrd::partial_cmp(&*t, other) != Some(model[..].cmp(other_model)) {
            return Err("cmp / partial_cmp differs from the byte-wise order of the models".into());
        }
        let b: &[u8] = (*t).borrow();
        if b != &model[..] {
            return Err("Borrow<[u8]> differs from the model".into());
        }
        let s = std::str::from_utf8(model).map_err(|_| "model not UTF-8".to_string())?.to_string();
        let o = std::str::from_utf8(other_model).map_err(|_| "model not UTF-8".to_string())?;
        if !(*t == *s.as_str()) || (*t == *o) != (s == o) {
            return Err("PartialEq<str> differs from the model".into());
        }
        let w: &Tendril<fmt::WTF8, A> = t.as_superset();
        if w.as_bytes().as_ref() as &[u8] != &model[..] {
            return Err("as_superset::<WTF8> view differs from the model".into());
        }
        match k % 5 {
            0 => {
                let f: Tendril<Self, A> = o.parse().map_err(|_| "FromStr failed".to_string())?;
                if &*f != o {
                    return Err("FromStr differs from its input".into());
                }
                t.push_tendril(&f);
                model.extend_from_slice(other_model);
            },
            1 => {
                t.write_str(o).map_err(|_| "write_str failed".to_string())?;
                model.extend_from_slice(other_model);
            },
            2 => {
                write!(t, "{}|{:>3}|{}", o, k, '\u{e9}').map_err(|_| "write! failed".to_string())?;
                model.extend_from_slice(format!("{}|{:>3}|{}", o, k, '\u{e9}').as_bytes());
            },
            3 => {
                let f: Tendril<Self, A> = Tendril::format(format_args!("{}<{}>{}", s, k, o));
                if f.as_bytes().as_ref() as &[u8] != format!("{}<{}>{}", s, k, o).as_bytes() {
                    return Err("Tendril::format differs from format!".into());
                }
                *t = f;
                *model = format!("{}<{}>{}", s, k, o).into_bytes();
            },
            _ => {
                let f: Tendril<Self, A> = Tendril::from(o);
                if &*f != o {
                    return Err("From<&str> differs from its input".into());
                }
                t.push_tendril(&f);
                model.extend_from_slice(other_model);
            },
        }
        Ok(())
    }
    fn valid(buf: &[u8]) -> bool {
        std::str::from_utf8(buf).is_ok()
    }
    fn gen_valid(rng: &mut Rng, len: usize) -> Vec<u8> {
        gen_utf8(rng, len)
    }
    fn encode_char(c: char) -> Option<Vec<u8>> {
        Some(c.to_string().into_bytes())
    }
    fn first_char(buf: &[u8]) -> Option<(char, usize)> {
        std::str::from_utf8(buf).ok()?.chars().next().map(|c| (c, c.len_utf8()))
    }
    fn try_push_char<A: Atomicity>(t: &mut Tendril<Self, A>, c: char) -> Option<Result<(), ()>> {
        // push_char is the UTF-8 specific infallible variant
        if (c as u32) % 2 == 0 {
            t.push_char(c);
            Some(Ok(()))
        } else {
            Some(t.try_push_char(c))
        }
    }
    fn pop_front_char<A: Atomicity>(t: &mut Tendril<Self, A>) -> Option<Option<char>> {
        Some(t.pop_front_char())
    }
    fn pop_front_char_run<A: Atomicity>(t: &mut Tendril<Self, A>, k: u32) -> Option<Option<(Tendril<Self, A>, u32)>> {
        Some(t.pop_front_char_run(|c| classify(k, c)))
    }
    fn deref_mut_write<A: Atomicity>(t: &mut Tendril<Self, A>, model: &mut Vec<u8>, _pos: u32, _val: u8) -> bool {
        let s: &mut str = &mut *t;
        s.make_ascii_uppercase();
        model.make_ascii_uppercase();
        true
    }
    fn extend_iter<A: Atomicity>(t: &mut Tendril<Self, A>, model: &mut Vec<u8>, data: &[u8], claim: usize) -> bool {
        let s = String::from_utf8_lossy(data).into_owned();
        t.extend(s.chars());
        t.extend([s.as_str(), "z"].iter().cloned());
        t.extend(Liar { inner: s.chars(), claim });
        let collected: Tendril<Self, A> = Liar { inner: s.chars(), claim }.collect();
        t.push_tendril(&collected);
        for _ in 0..2 {
            model.extend_from_slice(s.as_bytes());
        }
        model.push(b'z');
        for _ in 0..2 {
            model.extend_from_slice(s.as_bytes());
        }
        true
    }
    fn subset_round_trip<A: Atomicity>(t: Tendril<Self, A>, model: &[u8]) -> Result<Tendril<Self, A>, String> {
        let ascii = model.iter().all(|b| *b < 0x80);
        if t.try_as_subset::<fmt::ASCII>().is_ok() != ascii {
            return Err(format!("UTF8.try_as_subset::<ASCII> answered {} for ascii={}", !ascii, ascii));
        }
        let t = match t.try_into_subset::<fmt::ASCII>() {
            Ok(a) => {
                if !ascii {
                    return Err("UTF8.try_into_subset::<ASCII> succeeded on non-ASCII content".into());
                }
                a.into_superset::<fmt::UTF8>()
            },
            Err(orig) => {
                if ascii {
                    return Err("UTF8.try_into_subset::<ASCII> failed on ASCII content".into());
                }
                orig
            },
        };
        // up to WTF-8 and back
        let w: Tendril<fmt::WTF8, A> = t.into_superset();
        w.try_into_subset::<fmt::UTF8>().map_err(|_| "WTF8.try_into_subset::<UTF8> failed on UTF-8 content".to_string())
    }
    fn string_round_trip<A: Atomicity>(t: Tendril<Self, A>) -> Tendril<Self, A> {
        let s: String = t.into();
        let t2: Tendril<Self, A> = Tendril::from(s);
        let s2 = String::from(&t2);
        Tendril::from_slice(&s2[..])
    }
}

impl FmtSpec for fmt::WTF8 {
    const NAME: &'static str = "WTF8";
    fn seam_pair(k: u32) -> Option<(Vec<u8>, Vec<u8>)> {
        let (mut l, mut r) = (vec![], vec![]);
        enc_generalized(0xD800 + (k % 0x400), &mut l);
        enc_generalized(0xDC00 + ((k / 7) % 0x400), &mut r);
        Some((l, r))
    }
    fn valid(buf: &[u8]) -> bool {
        wtf8_valid(buf)
    }
    fn concat(lhs: &mut Vec<u8>, rhs: &[u8]) {
        // join a trailing lead surrogate with a leading trail surrogate
        if lhs.len() >= 3 && rhs.len() >= 3 {
            let l = &lhs[lhs.len() - 3..];
            let r = &rhs[..3];
            let is_sur = |b: &[u8], lo: u8, hi: u8| b[0] == 0xED && b[1] >= lo && b[1] <= hi && (b[2] & 0xC0) == 0x80;
            if is_sur(l, 0xA0, 0xAF) && is_sur(r, 0xB0, 0xBF) {
                let hi = (((l[1] & 0x0F) as u32) << 6) | (l[2] & 0x3F) as u32;
                let lo = (((r[1] & 0x0F) as u32) << 6) | (r[2] & 0x3F) as u32;
                let cp = 0x10000 + (hi << 10) + lo;
                let n = lhs.len() - 3;
                lhs.truncate(n);
                enc_generalized(cp, lhs);
                lhs.extend_from_slice(&rhs[3..]);
                return;
            }
        }
        lhs.extend_from_slice(rhs);
    }
    fn gen_valid(rng: &mut Rng, len: usize) -> Vec<u8> {
        let mut out = Vec::new();
        let mut prev_lead = false;
        while out.len() < len {
            let cp: u32 = match rng.below(9) {
                8 => 0xD000 + rng.below(0x800) as u32, // 0xED lead byte without being a surrogate
                0 => 0xD800 + rng.below(0x400) as u32,
                1 => 0xDC00 + rng.below(0x400) as u32,
                2 => 0x10000 + rng.below(0x1000) as u32,
                3 => 0xE9,
                4 => 0x4E2D,
                _ => b'a' as u32 + rng.below(26) as u32,
            };
            let trail = (0xDC00..0xE000).contains(&cp);
            if trail && prev_lead {
                continue;
            }
            prev_lead = (0xD800..0xDC00).contains(&cp);
            enc_generalized(cp, &mut out);
        }
        out
    }
    fn subset_round_trip<A: Atomicity>(t: Tendril<Self, A>, model: &[u8]) -> Result<Tendril<Self, A>, String> {
        let utf8 = std::str::from_utf8(model).is_ok();
        match t.try_into_subset::<fmt::UTF8>() {
            Ok(u) => {
                if !utf8 {
                    return Err("WTF8.try_into_subset::<UTF8> succeeded on content with surrogates".into());
                }
                Ok(u.into_superset())
            },
            Err(orig) => {
                if utf8 {
                    return Err("WTF8.try_into_subset::<UTF8> failed on UTF-8 content".into());
                }
                Ok(orig)
            },
        }
    }
}

// ------------------------------------------------------------------ generation

const LENS: &[usize] = &[0, 1, 2, 3, 4, 7, 8, 9, 15, 16, 17, 24, 31, 32, 33, 40, 63, 64, 65];

fn pick_len(rng: &mut Rng) -> usize {
    if rng.chance(1, 40) {
        rng.range(100, 600)
    } else {
        *rng.pick(LENS)
    }
}

fn invalid_bytes(rng: &mut Rng) -> Vec<u8> {
    let mut v = b"ab".to_vec();
    match rng.below(9) {
        0 => v.push(0x80),
        1 => v.extend_from_slice(&[0xC3]),
        2 => v.extend_from_slice(&[0xE4, 0xB8]),
        3 => v.extend_from_slice(&[0xF0, 0x9F, 0x98]),
        4 => v.extend_from_slice(&[0xED, 0xA0, 0x80, 0xED, 0xB0, 0x80]),
        5 => v.extend_from_slice(&[0xC0, 0xAF]),
        6 => v.extend_from_slice(&[0xED, 0x95, 0x9C, 0xED, 0xA0, 0x80]), // Hangul, then a lone surrogate
        7 => v.extend_from_slice(&[0xED, 0x9F, 0xBF, b'q', 0xED, 0xBF, 0xBF]),
        _ => v.extend_from_slice(&[0xFF, b'z']),
    }
    if rng.chance(1, 2) {
        v.extend_from_slice(b"cd");
    }
    v
}

/// Generate a history.  Offsets are generated relative to "typical" lengths and taken
/// modulo (len + 2) at execution time so that they stay meaningful while shrinking.
pub fn gen_history<F: FmtSpec>(rng: &mut Rng, max_ops: usize) -> Vec<Op> {
    let n = rng.range(4, max_ops.max(5));
    let mut ops = Vec::with_capacity(n);
    for _ in 0..n {
        let kind = match rng.weighted(&[
            2, 3, 8, 14, 9, 7, 7, 2, 2, 10, 2, 10, 3, 4, 6, 3, 3, 2, 5, 5, 4, 4, 2, 2, 3, 3, 3, 2, 2, 3,
        ]) as u8
        {
            k if k < N_KINDS => k,
            _ => K_CLONE,
        };
        let kind = if rng.chance(1, 40) {
            K_READ_TO_TENDRIL
        } else if rng.chance(1, 30) {
            K_CLONE_FROM
        } else if rng.chance(1, 25) {
            K_REJOIN_VIA_BYTES
        } else if rng.chance(1, 30) {
            K_TRAIT_EXTRAS
        } else {
            kind
        };
        let a = rng.below(POOL) as u32;
        let mut b = rng.below(POOL) as u32;
        let mut c = rng.below(80) as u32;
        let mut data = vec![];
        match kind {
            K_READ_TO_TENDRIL => {
                let l = *rng.pick(&[0usize, 1, 15, 16, 17, 31, 32, 33, 63, 64, 65, 100, 200, 500]);
                data = (0..l).map(|_| 1 + rng.below(255) as u8).collect();
                b = *rng.pick(&[1u32, 3, 7, 16, 32, 1000]);
                c = rng.below(4000) as u32;
            },
            K_WITH_CAPACITY | K_RESERVE => b = pick_len(rng) as u32,
            K_FROM_BYTES | K_TRY_PUSH_BYTES | K_REINTERPRET_FROM_BYTES | K_WRITE_ALL | K_EXTEND_ITER => {
                data = if rng.chance(1, 6) { invalid_bytes(rng) } else { let l = pick_len(rng); F::gen_valid(rng, l) };
                if kind == K_WRITE_ALL || kind == K_EXTEND_ITER {
                    data.truncate(40);
                }
            },
            K_TRY_POP_FRONT | K_TRY_POP_BACK | K_POP_FRONT_PANIC | K_POP_BACK_PANIC => {
                b = match rng.below(6) {
                    0 => 0,
                    1 => 1,
                    2 => 1_000_000, // "whole length" marker, resolved at run time
                    3 => 1_000_001, // length + 1: out of bounds
                    4 if rng.chance(1, 3) => *rng.pick(&[1_000_002u32, 1_000_003, 1_000_004]), // u32::MAX, 2^31, u32::MAX - len + 1
                    _ => rng.below(40) as u32,
                }
            },
            K_TRY_SUBTENDRIL | K_SUBTENDRIL_PANIC => {
                b = rng.below(48) as u32; // offset
                if rng.chance(1, 30) {
                    b = 1_000_002; // u32::MAX
                }
                c = match rng.below(5) {
                    0 => 1_000_000, // up to the end
                    1 => 1_000_001, // one past the end
                    2 if rng.chance(1, 2) => *rng.pick(&[1_000_002u32, 1_000_003, 1_000_004, 1_000_005]), // u32::MAX, 2^31, wrap-to-0, wrap-to-len
                    _ => rng.below(40) as u32,
                };
                data = vec![rng.below(POOL) as u8]; // destination slot
            },
            K_TRY_PUSH_CHAR => {
                c = *rng.pick(&['a' as u32, 'Z' as u32, 0xE9, 0xFF, 0x100, 0x4E2D, 0x1F600, 0x7F, 0x80, 0])
            },
            K_EXTEND_WITH_BYTE => b = pick_len(rng).min(64) as u32,
            K_REJOIN_VIA_BYTES | K_TRAIT_EXTRAS => {
                c = rng.below(1 << 20) as u32;
                data = vec![rng.below(POOL) as u8];
            },
            _ => {},
        }
        ops.push(Op { kind, a, b, c, data });
    }
    ops
}

/// A short history around one or two BIG buffers (kilobytes to megabytes).
pub fn gen_big_history<F: FmtSpec>(rng: &mut Rng) -> Vec<Op> {
    let n = rng.range(3, 10);
    let mut ops = Vec::with_capacity(n);
    for _ in 0..n {
        let kind = *rng.pick(&[K_READ_BIG, K_READ_BIG, K_PUSH_BIG, K_PUSH_BIG, K_PUSH_BIG, K_RESERVE, K_WITH_CAPACITY, K_CLONE, K_TRY_SUBTENDRIL, K_TRY_POP_FRONT, K_TRY_POP_BACK, K_PUSH_TENDRIL, K_DROP, K_TRY_PUSH_BYTES, K_PUSH_SELF_CLONE, K_SEND_ROUND_TRIP, K_EXTEND_WITH_BYTE]);
        let a = rng.below(3) as u32;
        let mut b = rng.below(3) as u32;
        let mut c = rng.below(41) as u32;
        let mut data = vec![];
        match kind {
            K_PUSH_BIG => b = rng.below(BIG_BASES.len()) as u32,
            K_READ_BIG => {
                b = rng.below(6) as u32;
                c = rng.below(1 << 14) as u32;
            },
            K_RESERVE | K_WITH_CAPACITY => b = big_size(rng.below(BIG_BASES.len()) as u32, c),
            K_EXTEND_WITH_BYTE => b = big_size(rng.below(4) as u32, c),
            K_TRY_PUSH_BYTES => {
                let l = pick_len(rng);
                data = F::gen_valid(rng, l);
            },
            K_TRY_POP_FRONT | K_TRY_POP_BACK => b = *rng.pick(&[0u32, 1, 7, 4095, 4096, 65535, 65536, 1_000_000, 1_000_001]),
            K_TRY_SUBTENDRIL => {
                b = *rng.pick(&[0u32, 1, 8, 4096, 65535, 65536]);
                c = *rng.pick(&[1_000_000u32, 1_000_001, 1, 4096, 65535, 65536, 65537]);
                data = vec![rng.below(3) as u8];
            },
            _ => {},
        }
        ops.push(Op { kind, a, b, c, data });
    }
    ops
}

// ------------------------------------------------------------------ execution

pub trait Observer {
    /// called after each executed operation with (kind, class before, class after)
    fn op_done(&mut self, _kind: u8, _before: u8, _after: u8) {}
}

pub struct NoObserver;
impl Observer for NoObserver {}

fn repr_class<F: Format, A: Atomicity>(t: &Tendril<F, A>) -> u8 {
    if t.is_shared() {
        2
    } else if t.len32() <= 8 {
        0
    } else {
        1
    }
}

fn resolve(n: u32, len: usize) -> u32 {
    match n {
        1_000_000 => len as u32,
        1_000_001 => len as u32 + 1,
        1_000_002 => u32::MAX,
        1_000_003 => 1 << 31,
        1_000_004 => (u32::MAX - len as u32).wrapping_add(1),
        x => x,
    }
}

fn expect_sub<F: FmtSpec>(model: &[u8], off: u32, len: u32) -> Result<Vec<u8>, SubtendrilError> {
    let ml = model.len() as u32;
    if off > ml || len > ml - off {
        return Err(SubtendrilError::OutOfBounds);
    }
    let s = &model[off as usize..(off + len) as usize];
    if !F::valid(s) {
        return Err(SubtendrilError::ValidationFailed);
    }
    Ok(s.to_vec())
}

pub fn run_history<F: FmtSpec, A: Atomicity>(ops: &[Op], obs: &mut dyn Observer) -> Result<u64, Fail> {
    let mut pool: Vec<Tendril<F, A>> = (0..POOL).map(|_| Tendril::new()).collect();
    let mut model: Vec<Vec<u8>> = (0..POOL).map(|_| Vec::new()).collect();
    let mut digest = 0u64;
    for (oi, op) in ops.iter().enumerate() {
        let i = op.a as usize % POOL;
        let j = op.b as usize % POOL;
        let before = repr_class(&pool[i]);
        let ctx = |what: String| fail("value-differs", format!("op #{oi} {} on slot {i} ({}): {what}", kind_name(op.kind), F::NAME));
        match op.kind {
            K_NEW => {
                pool[i] = Tendril::new();
                model[i].clear();
            },
            K_WITH_CAPACITY => {
                pool[i] = Tendril::with_capacity(op.b);
                model[i].clear();
            },
            K_FROM_BYTES => match Tendril::<F, A>::try_from_byte_slice(&op.data) {
                Ok(t) => {
                    if !F::valid(&op.data) {
                        return Err(ctx(format!("try_from_byte_slice accepted invalid {:?}", op.data)));
                    }
                    pool[i] = t;
                    model[i] = op.data.clone();
                },
                Err(()) => {
                    if F::valid(&op.data) {
                        return Err(ctx(format!("try_from_byte_slice rejected valid {:?}", op.data)));
                    }
                },
            },
            K_TRY_PUSH_BYTES => {
                let r = pool[i].try_push_bytes(&op.data);
                let ok = F::valid(&op.data);
                if r.is_ok() != ok {
                    return Err(ctx(format!("try_push_bytes returned {:?}, model validity {}", r, ok)));
                }
                if ok {
                    F::concat(&mut model[i], &op.data);
                }
            },
            K_PUSH_TENDRIL => {
                if i == j {
                    let c = pool[j].clone();
                    pool[i].push_tendril(&c);
                } else {
                    let (x, y) = if i < j {
                        let (l, r) = pool.split_at_mut(j);
                        (&mut l[i], &r[0])
                    } else {
                        let (l, r) = pool.split_at_mut(i);
                        (&mut r[0], &l[j])
                    };
                    x.push_tendril(y);
                }
                let rhs = model[j].clone();
                F::concat(&mut model[i], &rhs);
            },
            K_PUSH_SELF_CLONE => {
                // a clone shares the buffer; a subtendril of it that is adjacent to self
                let len = pool[i].len32();
                let c = pool[i].clone();
                let half = len / 2;
                if let Ok(tail) = c.try_subtendril(half, len - half) {
                    if let Ok(mut head) = c.try_subtendril(0, half) {
                        head.push_tendril(&tail); // adjacent shared slices: zero-copy merge
                        if head.as_bytes().as_ref() as &[u8] != &model[i][..] {
                            return Err(ctx(format!("head+tail of a clone gave {:?}, model {:?}", head.as_bytes().as_ref() as &[u8], model[i])));
                        }
                        pool[j] = head;
                        model[j] = model[i].clone();
                    }
                }
            },
            K_TRY_POP_FRONT | K_TRY_POP_BACK | K_POP_FRONT_PANIC | K_POP_BACK_PANIC => {
                let n = resolve(op.b, model[i].len());
                let front = matches!(op.kind, K_TRY_POP_FRONT | K_POP_FRONT_PANIC);
                let ml = model[i].len() as u32;
                let expect: Result<(), SubtendrilError> = if n == 0 {
                    Ok(())
                } else if n > ml {
                    Err(SubtendrilError::OutOfBounds)
                } else {
                    let rest = if front { &model[i][n as usize..] } else { &model[i][..(ml - n) as usize] };
                    if F::valid(rest) {
                        Ok(())
                    } else {
                        Err(SubtendrilError::ValidationFailed)
                    }
                };
                let got: Result<(), Option<SubtendrilError>> = match op.kind {
                    K_TRY_POP_FRONT => pool[i].try_pop_front(n).map_err(Some),
                    K_TRY_POP_BACK => pool[i].try_pop_back(n).map_err(Some),
                    K_POP_FRONT_PANIC => {
                        let t = &mut pool[i];
                        catch_unwind(AssertUnwindSafe(|| t.pop_front(n))).map_err(|_| None)
                    },
                    _ => {
                        let t = &mut pool[i];
                        catch_unwind(AssertUnwindSafe(|| t.pop_back(n))).map_err(|_| None)
                    },
                };
                let agree = match (&got, &expect) {
                    (Ok(()), Ok(())) => true,
                    (Err(Some(a)), Err(b)) => a == b,
                    (Err(None), Err(_)) => true,
                    _ => false,
                };
                if !agree {
                    return Err(fail("checked-op-result-differs", format!("op #{oi} {}({n}) on slot {i} ({}), content {:?}: returned {:?}, model says {:?}", kind_name(op.kind), F::NAME, model[i], got, expect)));
                }
                if expect.is_ok() {
                    if front {
                        model[i].drain(..n as usize);
                    } else {
                        let l = model[i].len() - n as usize;
                        model[i].truncate(l);
                    }
                }
            },
            K_TRY_SUBTENDRIL | K_SUBTENDRIL_PANIC => {
                let dst = op.data.first().cloned().unwrap_or(0) as usize % POOL;
                let ml = model[i].len();
                let off = if op.b == 1_000_002 {
                    u32::MAX
                } else if op.b as usize > ml + 1 {
                    (op.b as usize % (ml + 2)) as u32
                } else {
                    op.b
                };
                let len = match op.c {
                    1_000_000 => (ml as u32).saturating_sub(off),
                    1_000_001 => (ml as u32).saturating_sub(off).saturating_add(1),
                    1_000_002 => u32::MAX,
                    1_000_003 => 1 << 31,
                    1_000_004 => (u32::MAX - off).wrapping_add(1), // off + len wraps to 0
                    1_000_005 => (u32::MAX - off).wrapping_add(1).wrapping_add(ml as u32), // off + len wraps to the length
                    x => x,
                };
                let expect = expect_sub::<F>(&model[i], off, len);
                let got: Result<Tendril<F, A>, Option<SubtendrilError>> = if op.kind == K_TRY_SUBTENDRIL {
                    pool[i].try_subtendril(off, len).map_err(Some)
                } else {
                    let t = &pool[i];
                    catch_unwind(AssertUnwindSafe(|| t.subtendril(off, len))).map_err(|_| None)
                };
                match (got, expect) {
                    (Ok(t), Ok(m)) => {
                        pool[dst] = t;
                        model[dst] = m;
                    },
                    (Err(Some(a)), Err(b)) if a == b => {},
                    (Err(None), Err(_)) => {},
                    (g, e) => {
                        return Err(fail("checked-op-result-differs", format!("op #{oi} {}({off},{len}) on slot {i} ({}), content {:?}: returned {:?}, model says {:?}", kind_name(op.kind), F::NAME, model[i], g.map(|t| t.as_bytes().to_vec()), e)));
                    },
                }
            },
            K_PUSH_BIG => {
                let n = big_size(op.b, op.c) as usize;
                if model[i].len() + n <= 8 << 20 {
                    // lower-case ASCII: valid in every format
                    let data: Vec<u8> = (0..n).map(|k| b'a' + ((k as u32).wrapping_mul(7).wrapping_add(op.c) % 26) as u8).collect();
                    if pool[i].try_push_bytes(&data).is_err() {
                        return Err(ctx(format!("try_push_bytes rejected {n} ASCII letters")));
                    }
                    model[i].extend_from_slice(&data);
                }
            },
            K_CLONE => {
                let c = pool[i].clone();
                pool[j] = c;
                model[j] = model[i].clone();
            },
            K_CLONE_FROM => {
                // Clone::clone_from (what Vec<Tendril>::clone_from calls per element): slot j
                // becomes a copy of slot i, whatever slot j held before
                if i != j {
                    let (a, b) = if i < j {
                        let (l, r) = pool.split_at_mut(j);
                        (&l[i], &mut r[0])
                    } else {
                        let (l, r) = pool.split_at_mut(i);
                        (&r[0], &mut l[j])
                    };
                    b.clone_from(a);
                    model[j] = model[i].clone();
                }
            },
            K_CLEAR => {
                pool[i].clear();
                model[i].clear();
            },
            K_RESERVE => pool[i].reserve(op.b),
            K_DROP => {
                pool[i] = Tendril::new();
                model[i].clear();
            },
            K_SEND_ROUND_TRIP => {
                let t = std::mem::replace(&mut pool[i], Tendril::new());
                let s: SendTendril<F> = if op.c % 2 == 0 { t.into_send() } else { SendTendril::from(t) };
                // through the other atomicity and back
                if op.c % 3 == 0 {
                    let other: Tendril<F, Atomic> = Tendril::from(s);
                    let other2 = other.clone();
                    drop(other);
                    let s2: SendTendril<F> = other2.into_send();
                    let back: Tendril<F, NonAtomic> = Tendril::from(s2);
                    pool[i] = Tendril::from(back.into_send());
                } else {
                    pool[i] = Tendril::from(s);
                }
            },
            K_INTO_BYTES_ROUND_TRIP => {
                let t = std::mem::replace(&mut pool[i], Tendril::new());
                let b = t.into_bytes();
                if b.as_ref() as &[u8] != &model[i][..] {
                    return Err(ctx(format!("into_bytes gave {:?}, model {:?}", b.as_ref() as &[u8], model[i])));
                }
                match b.try_reinterpret::<F>() {
                    Ok(t) => pool[i] = t,
                    Err(_) => return Err(ctx("try_reinterpret back to the original format failed".into())),
                }
            },
            K_AS_BYTES_CHECK => {
                if pool[i].as_bytes().as_ref() as &[u8] != &model[i][..] {
                    return Err(ctx("as_bytes differs from the model".into()));
                }
                if pool[i].try_reinterpret_view::<fmt::Bytes>().is_err() {
                    return Err(ctx("try_reinterpret_view::<Bytes> failed".into()));
                }
            },
            K_TRY_PUSH_CHAR => {
                if let Some(c) = char::from_u32(op.c) {
                    if let Some(r) = F::try_push_char(&mut pool[i], c) {
                        let enc = F::encode_char(c);
                        if r.is_ok() != enc.is_some() {
                            return Err(ctx(format!("try_push_char({:?}) returned {:?}, model encodable={}", c, r, enc.is_some())));
                        }
                        if let Some(e) = enc {
                            F::concat(&mut model[i], &e);
                        }
                    }
                }
            },
            K_POP_FRONT_CHAR => {
                if let Some(got) = F::pop_front_char(&mut pool[i]) {
                    let want = F::first_char(&model[i]);
                    if got != want.map(|w| w.0) {
                        return Err(ctx(format!("pop_front_char returned {:?}, model {:?}", got, want)));
                    }
                    if let Some((_, n)) = want {
                        model[i].drain(..n);
                    }
                }
            },
            K_POP_FRONT_CHAR_RUN => {
                if let Some(got) = F::pop_front_char_run(&mut pool[i], op.c) {
                    // model
                    let mut pos = 0usize;
                    let mut class = None;
                    while let Some((ch, n)) = F::first_char(&model[i][pos..]) {
                        let cl = classify(op.c, ch);
                        match class {
                            None => class = Some(cl),
                            Some(c0) if c0 != cl => break,
                            _ => {},
                        }
                        pos += n;
                    }
                    match (got, class) {
                        (None, None) => {},
                        (Some((t, r)), Some(c0)) => {
                            if r != c0 || t.as_bytes().as_ref() as &[u8] != &model[i][..pos] {
                                return Err(ctx(format!("pop_front_char_run returned ({:?},{r}), model ({:?},{c0})", t.as_bytes().as_ref() as &[u8], &model[i][..pos])));
                            }
                            let run: Vec<u8> = model[i].drain(..pos).collect();
                            pool[j] = t;
                            model[j] = run;
                            if i == j {
                                // the run replaced the remainder in the same slot
                            }
                        },
                        (g, c) => return Err(ctx(format!("pop_front_char_run returned {:?}, model class {:?}", g.map(|x| x.1), c))),
                    }
                }
            },
            K_DEREF_MUT => {
                let (t, m) = (&mut pool[i], &mut model[i]);
                F::deref_mut_write(t, m, op.b, op.c as u8);
            },
            K_WRITE_ALL | K_EXTEND_WITH_BYTE | K_READ_TO_TENDRIL | K_READ_BIG => {
                let (t, m) = (&mut pool[i], &mut model[i]);
                F::bytes_only(t, m, op);
            },
            K_EXTEND_ITER => {
                let (t, m) = (&mut pool[i], &mut model[i]);
                F::extend_iter(t, m, &op.data, op.c as usize % 70);
            },
            K_SUBSET_ROUND_TRIP => {
                let t = std::mem::replace(&mut pool[i], Tendril::new());
                match F::subset_round_trip(t, &model[i]) {
                    Ok(t) => pool[i] = t,
                    Err(e) => return Err(fail("checked-op-result-differs", format!("op #{oi} on slot {i} ({}), content {:?}: {e}", F::NAME, model[i]))),
                }
            },
            K_REINTERPRET_FROM_BYTES => {
                let b: Tendril<fmt::Bytes, A> = Tendril::from_slice(&op.data[..]);
                let ok = F::valid(&op.data);
                match b.try_reinterpret::<F>() {
                    Ok(t) => {
                        if !ok {
                            return Err(fail("checked-op-result-differs", format!("op #{oi}: Bytes {:?} reinterpreted as {} although invalid", op.data, F::NAME)));
                        }
                        pool[i] = t;
                        model[i] = op.data.clone();
                    },
                    Err(orig) => {
                        if ok {
                            return Err(fail("checked-op-result-differs", format!("op #{oi}: Bytes {:?} not accepted as {} although valid", op.data, F::NAME)));
                        }
                        if orig.as_ref() as &[u8] != &op.data[..] {
                            return Err(ctx("failed try_reinterpret did not give the original back".into()));
                        }
                    },
                }
            },
            K_STRING_ROUND_TRIP => {
                let t = std::mem::replace(&mut pool[i], Tendril::new());
                pool[i] = F::string_round_trip(t);
            },
            K_EQ_ORD_CHECK => {
                let eq = pool[i] == pool[j];
                if eq != (model[i] == model[j]) {
                    return Err(ctx(format!("== with slot {j} returned {eq}")));
                }
            },
            K_REJOIN_VIA_BYTES => {
                // The contents of two valid tendrils laid out back to back in ONE byte buffer, the two
                // halves taken as views of it and reinterpreted in the pool's format, then joined with
                // push_tendril (adjacent views of one shared buffer: the zero-copy path).  The result has
                // to be what joining two unrelated tendrils with these contents gives.
                let mut left = model[i].clone();
                let mut right = model[j].clone();
                if op.c & 1 == 1 {
                    if let Some((l, r)) = F::seam_pair(op.c >> 2) {
                        F::concat(&mut left, &l);
                        let mut rr = r;
                        F::concat(&mut rr, &right);
                        right = rr;
                    }
                }
                let mut whole = left.clone();
                whole.extend_from_slice(&right);
                let parent: Tendril<fmt::Bytes, A> = Tendril::from_slice(&whole[..]);
                let h = parent.subtendril(0, left.len() as u32);
                let t = parent.subtendril(left.len() as u32, right.len() as u32);
                let keep = if op.c & 2 == 2 { Some(parent) } else { drop(parent); None };
                match (h.try_reinterpret::<F>(), t.try_reinterpret::<F>()) {
                    (Ok(mut h), Ok(t)) => {
                        h.push_tendril(&t);
                        let mut expected = left.clone();
                        F::concat(&mut expected, &right);
                        if t.as_bytes().as_ref() as &[u8] != &right[..] {
                            return Err(ctx(format!("right-hand view changed by push_tendril: {:?}, expected {:?}", t.as_bytes().as_ref() as &[u8], right)));
                        }
                        if let Some(p) = &keep {
                            if p.as_ref() as &[u8] != &whole[..] {
                                return Err(fail("other-tendril-changed", format!("op #{oi}: the byte buffer both views came from changed: {:?}, expected {:?}", p.as_ref() as &[u8], whole)));
                            }
                        }
                        let dst = op.data.first().map(|d| *d as usize % POOL).unwrap_or(i);
                        pool[dst] = h;
                        model[dst] = expected;
                    },
                    _ => return Err(fail("checked-op-result-differs", format!("op #{oi}: a view holding the bytes of a valid {} tendril was not accepted by try_reinterpret", F::NAME))),
                }
            },
            K_TRAIT_EXTRAS => {
                if fnv_of(&pool[i]) != fnv_of(&model[i][..]) {
                    return Err(ctx("Hash feeds the hasher something else than the byte slice does".into()));
                }
                {
                    let c = pool[i].clone();
                    let fresh = Tendril::<F, A>::try_from_byte_slice(&model[i]).map_err(|_| ctx("try_from_byte_slice rejected a live tendril's content".into()))?;
                    if c.is_shared_with(&pool[i]) != c.is_shared() || (model[i].len() > 8 && !c.is_shared()) || fresh.is_shared_with(&pool[i]) || fresh.is_shared_with(&c) {
                        return Err(ctx("is_shared_with: a clone that sits on the heap shares its original's buffer, a fresh copy never does".into()));
                    }
                }
                if i != j {
                    let dst = op.data.first().map(|d| *d as usize % POOL).unwrap_or(i);
                    let mut t: Tendril<F, A> = if op.c % 2 == 0 { [&pool[i], &pool[j]].into_iter().collect() } else { pool[i].clone() };
                    let mut m = vec![];
                    F::concat(&mut m, &model[i]);
                    if op.c % 2 == 0 {
                        let rhs = model[j].clone();
                        F::concat(&mut m, &rhs);
                    }
                    t.extend([&pool[j], &pool[i]].into_iter());
                    let (mj, mi) = (model[j].clone(), model[i].clone());
                    F::concat(&mut m, &mj);
                    F::concat(&mut m, &mi);
                    let (oth, om) = (pool[j].clone(), model[j].clone());
                    if let Err(e) = F::extras(&mut t, &mut m, &oth, &om, op.c / 2) {
                        return Err(fail("checked-op-result-differs", format!("op #{oi} on slot {i} ({}): {e}", F::NAME)));
                    }
                    pool[dst] = t;
                    model[dst] = m;
                }
            },
            _ => {},
        }
        // ---- oracle after every operation: every live tendril equals its model
        for k in 0..POOL {
            let bytes: &[u8] = pool[k].as_bytes().as_ref();
            if bytes != &model[k][..] {
                let class = if k == i || (k == j && matches!(op.kind, K_CLONE | K_CLONE_FROM | K_POP_FRONT_CHAR_RUN | K_PUSH_SELF_CLONE)) || op.data.first().map(|d| *d as usize % POOL) == Some(k) {
                    "value-differs"
                } else {
                    "other-tendril-changed"
                };
                return Err(fail(class, format!("after op #{oi} {} on slot {i} ({}): slot {k} holds {:?}, model {:?}", kind_name(op.kind), F::NAME, bytes, model[k])));
            }
            if pool[k].len32() as usize != model[k].len() {
                return Err(fail("value-differs", format!("after op #{oi}: slot {k} len32 {} != model {}", pool[k].len32(), model[k].len())));
            }
            if !F::valid(bytes) {
                return Err(fail("format-broken", format!("after op #{oi} {} ({}): slot {k} holds bytes {:?} that are not valid for the format", kind_name(op.kind), F::NAME, bytes)));
            }
        }
        obs.op_done(op.kind, before, repr_class(&pool[i]));
        digest = digest.wrapping_mul(0x100000001B3).wrapping_add(model[i].len() as u64 + ((op.kind as u64) << 32));
    }
    drop(pool);
    Ok(digest)
}

// ---- API-surface probe: a SendTendril may cross threads only because it is the unique owner of
// its buffer (the refcount it carries is the non-atomic one).  Should SendTendril ever become
// duplicable, the duplicates must not alias one buffer.  Compiles whether or not it is `Clone`.
struct CloneProbe<'a, T>(&'a T);
trait NotClone<T> {
    fn try_clone(&self) -> Option<T> {
        None
    }
}
impl<'a, T> NotClone<T> for CloneProbe<'a, T> {}
impl<'a, T: Clone> CloneProbe<'a, T> {
    fn try_clone(&self) -> Option<T> {
        Some(self.0.clone())
    }
}

pub fn send_tendril_alias_probe() -> Result<(), Fail> {
    let s1: SendTendril<fmt::UTF8> = Tendril::<fmt::UTF8, NonAtomic>::from_slice("a heap allocated tendril, more than eight bytes").into_send();
    let s2 = match CloneProbe(&s1).try_clone() {
        Some(s) => s,
        None => return Ok(()),
    };
    let a: Tendril<fmt::UTF8, NonAtomic> = s1.into();
    let b: Tendril<fmt::UTF8, NonAtomic> = s2.into();
    if a.is_shared_with(&b) || a.is_shared() || b.is_shared() {
        return Err(fail("send-tendril-aliased", "SendTendril can be duplicated and the duplicates share one buffer, whose reference count is not atomic: two threads may now update it".into()));
    }
    Ok(())
}

/// Format / atomicity selector shared by all front ends.

pub fn run_selected(fmt_id: u8, atomic: bool, ops: &[Op], obs: &mut dyn Observer) -> Result<u64, Fail> {
    match (fmt_id % 5, atomic) {
        (0, false) => run_history::<fmt::UTF8, NonAtomic>(ops, obs),
        (0, true) => run_history::<fmt::UTF8, Atomic>(ops, obs),
        (1, false) => run_history::<fmt::Bytes, NonAtomic>(ops, obs),
        (1, true) => run_history::<fmt::Bytes, Atomic>(ops, obs),
        (2, false) => run_history::<fmt::ASCII, NonAtomic>(ops, obs),
        (2, true) => run_history::<fmt::ASCII, Atomic>(ops, obs),
        (3, false) => run_history::<fmt::Latin1, NonAtomic>(ops, obs),
        (3, true) => run_history::<fmt::Latin1, Atomic>(ops, obs),
        (4, false) => run_history::<fmt::WTF8, NonAtomic>(ops, obs),
        _ => run_history::<fmt::WTF8, Atomic>(ops, obs),
    }
}

pub fn gen_selected(fmt_id: u8, rng: &mut Rng, max_ops: usize) -> Vec<Op> {
    match fmt_id % 5 {
        0 => gen_history::<fmt::UTF8>(rng, max_ops),
        1 => gen_history::<fmt::Bytes>(rng, max_ops),
        2 => gen_history::<fmt::ASCII>(rng, max_ops),
        3 => gen_history::<fmt::Latin1>(rng, max_ops),
        _ => gen_history::<fmt::WTF8>(rng, max_ops),
    }
}

/// Like `gen_selected`, but one history in 150 is built around big buffers (native speed only:
/// the Miri front end keeps to `gen_selected`).
pub fn gen_selected_scale(fmt_id: u8, rng: &mut Rng, max_ops: usize) -> Vec<Op> {
    if rng.chance(1, 150) {
        return match fmt_id % 5 {
            0 => gen_big_history::<fmt::UTF8>(rng),
            1 => gen_big_history::<fmt::Bytes>(rng),
            2 => gen_big_history::<fmt::ASCII>(rng),
            3 => gen_big_history::<fmt::Latin1>(rng),
            _ => gen_big_history::<fmt::WTF8>(rng),
        };
    }
    gen_selected(fmt_id, rng, max_ops)
}

pub fn fmt_name(fmt_id: u8) -> &'static str {
    ["UTF8", "Bytes", "ASCII", "Latin1", "WTF8"][(fmt_id % 5) as usize]
}

// ------------------------------------------------------------------ text encoding of histories

pub fn ops_to_text(ops: &[Op]) -> String {
    let mut s = String::new();
    for o in ops {
        s.push_str(&format!("{} {} {} {} ", o.kind, o.a, o.b, o.c));
        if o.data.is_empty() {
            s.push('-');
        }
        for b in &o.data {
            s.push_str(&format!("{:02x}", b));
        }
        s.push('\n');
    }
    s
}

pub fn ops_from_text(s: &str) -> Vec<Op> {
    let mut out = vec![];
    for line in s.lines() {
        let f: Vec<&str> = line.split_whitespace().collect();
        if f.len() < 5 {
            continue;
        }
        let data = if f[4] == "-" {
            vec![]
        } else {
            (0..f[4].len() / 2).filter_map(|i| u8::from_str_radix(&f[4][2 * i..2 * i + 2], 16).ok()).collect()
        };
        out.push(Op { kind: f[0].parse().unwrap_or(0), a: f[1].parse().unwrap_or(0), b: f[2].parse().unwrap_or(0), c: f[3].parse().unwrap_or(0), data });
    }
    out
}
