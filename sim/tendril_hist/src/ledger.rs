//! Allocation ledger: a `GlobalAlloc` that, while a region is open, tracks every allocation in a
//! live table, pads it with red zones, poisons and quarantines freed blocks, and records
//!   * double free / free of a quarantined block,
//!   * free with a layout different from the allocation's (wrong capacity arithmetic),
//!   * red-zone damage (out-of-bounds write),
//!   * write after free (poison changed when the block leaves quarantine),
//!   * blocks still live when the region is closed (leak).
//! Outside a region it forwards to the system allocator untouched (apart from freeing tracked
//! blocks correctly).  The simulator's workers are single-threaded; a spin lock guards the table
//! anyway because the supervisor process has reader threads.

use std::alloc::{GlobalAlloc, Layout, System};
use std::sync::atomic::{AtomicBool, AtomicU64, AtomicUsize, Ordering};

const RZ: usize = 32;
const SLOTS: usize = 1 << 14;
const QUARANTINE: usize = 256;
const RZ_BYTE: u8 = 0xA5;
const POISON: u8 = 0xDD;

#[derive(Clone, Copy)]
struct Entry {
    user: usize,
    size: usize,
    align: usize,
    front: usize,
    state: u8, // 0 empty, 1 live, 2 tombstone
    /// guard-page mode: start and length of the mapping (0 = ordinary red-zone block)
    map_base: usize,
    map_len: usize,
}

const EMPTY: Entry = Entry { user: 0, size: 0, align: 0, front: 0, state: 0, map_base: 0, map_len: 0 };

// Guard-page mode ("electric fence"): every tracked block gets its own mapping and ends right
// before an inaccessible page, and is unmapped when freed.  An out-of-bounds READ past the end or
// any access after free then kills the worker with SIGSEGV, which the supervisor reports as a crash.
extern "C" {
    fn mmap(addr: *mut u8, len: usize, prot: i32, flags: i32, fd: i32, off: i64) -> *mut u8;
    fn munmap(addr: *mut u8, len: usize) -> i32;
    fn mprotect(addr: *mut u8, len: usize, prot: i32) -> i32;
}
const PAGE: usize = 4096;
const PROT_NONE: i32 = 0;
const PROT_RW: i32 = 3;
const MAP_PRIVATE_ANON: i32 = 0x22;
static GUARD_MODE: AtomicBool = AtomicBool::new(false);

struct Tables {
    live: [Entry; SLOTS],
    quarantine: [Entry; QUARANTINE],
    qpos: usize,
}

static mut TABLES: Tables = Tables { live: [EMPTY; SLOTS], quarantine: [EMPTY; QUARANTINE], qpos: 0 };
static LOCK: AtomicBool = AtomicBool::new(false);
static ACTIVE: AtomicBool = AtomicBool::new(false);
static INSTALLED: AtomicBool = AtomicBool::new(false);
static LIVE_COUNT: AtomicUsize = AtomicUsize::new(0);

pub static ERR_DOUBLE_FREE: AtomicU64 = AtomicU64::new(0);
pub static ERR_LAYOUT: AtomicU64 = AtomicU64::new(0);
pub static ERR_REDZONE: AtomicU64 = AtomicU64::new(0);
pub static ERR_UAF_WRITE: AtomicU64 = AtomicU64::new(0);
pub static ALLOCS: AtomicU64 = AtomicU64::new(0);
pub static FREES: AtomicU64 = AtomicU64::new(0);
pub static GUARDED: AtomicU64 = AtomicU64::new(0);
static LAST_LAYOUT_DETAIL: [AtomicUsize; 4] = [AtomicUsize::new(0), AtomicUsize::new(0), AtomicUsize::new(0), AtomicUsize::new(0)];

pub struct Ledger;

fn lock() {
    while LOCK.compare_exchange_weak(false, true, Ordering::Acquire, Ordering::Relaxed).is_err() {
        std::hint::spin_loop();
    }
}
fn unlock() {
    LOCK.store(false, Ordering::Release);
}

fn hash(p: usize) -> usize {
    (p >> 4).wrapping_mul(0x9E37_79B9_7F4A_7C15) >> (64 - 14)
}

#[allow(static_mut_refs)]
unsafe fn find(user: usize) -> Option<usize> {
    let mut i = hash(user) & (SLOTS - 1);
    for _ in 0..SLOTS {
        let e = TABLES.live[i];
        if e.state == 0 {
            return None;
        }
        if e.state == 1 && e.user == user {
            return Some(i);
        }
        i = (i + 1) & (SLOTS - 1);
    }
    None
}

#[allow(static_mut_refs)]
unsafe fn insert(e: Entry) -> bool {
    let mut i = hash(e.user) & (SLOTS - 1);
    for _ in 0..SLOTS {
        if TABLES.live[i].state != 1 {
            TABLES.live[i] = e;
            return true;
        }
        i = (i + 1) & (SLOTS - 1);
    }
    false
}

unsafe fn release_raw(e: &Entry) {
    let total = e.front + e.size + RZ;
    let base = (e.user - e.front) as *mut u8;
    System.dealloc(base, Layout::from_size_align_unchecked(total, e.align.max(1)));
}

unsafe fn check_poison_and_release(e: &Entry) {
    let p = e.user as *const u8;
    for k in 0..e.size {
        if *p.add(k) != POISON {
            ERR_UAF_WRITE.fetch_add(1, Ordering::Relaxed);
            break;
        }
    }
    release_raw(e);
}

unsafe impl GlobalAlloc for Ledger {
    unsafe fn alloc(&self, layout: Layout) -> *mut u8 {
        INSTALLED.store(true, Ordering::Relaxed);
        if !ACTIVE.load(Ordering::Relaxed) {
            return System.alloc(layout);
        }
        if GUARD_MODE.load(Ordering::Relaxed) && layout.align() <= 64 {
            let need = layout.size().max(1);
            let data_len = (need + RZ + PAGE - 1) / PAGE * PAGE;
            let total = data_len + PAGE;
            let base = mmap(std::ptr::null_mut(), total, PROT_RW, MAP_PRIVATE_ANON, -1, 0);
            if base as isize != -1 && !base.is_null() {
                mprotect(base.add(data_len), PAGE, PROT_NONE);
                let end = base as usize + data_len;
                let user = (end - need) & !(layout.align() - 1);
                // pattern before the block and in the alignment slack behind it
                let front = (user - base as usize).min(RZ);
                std::ptr::write_bytes((user - front) as *mut u8, RZ_BYTE, front);
                let slack = end - (user + layout.size());
                std::ptr::write_bytes((user + layout.size()) as *mut u8, RZ_BYTE, slack);
                lock();
                let ok = insert(Entry { user, size: layout.size(), align: layout.align(), front, state: 1, map_base: base as usize, map_len: total });
                unlock();
                if ok {
                    LIVE_COUNT.fetch_add(1, Ordering::Relaxed);
                    ALLOCS.fetch_add(1, Ordering::Relaxed);
                    GUARDED.fetch_add(1, Ordering::Relaxed);
                    return user as *mut u8;
                }
                munmap(base, total);
            }
        }
        let front = RZ.max(layout.align());
        let total = front + layout.size() + RZ;
        let base = System.alloc(Layout::from_size_align_unchecked(total, layout.align()));
        if base.is_null() {
            return base;
        }
        std::ptr::write_bytes(base, RZ_BYTE, front);
        std::ptr::write_bytes(base.add(front + layout.size()), RZ_BYTE, RZ);
        let user = base.add(front);
        lock();
        let ok = insert(Entry { user: user as usize, size: layout.size(), align: layout.align(), front, state: 1, map_base: 0, map_len: 0 });
        unlock();
        if !ok {
            // table full: fall back to an untracked block (never happens with pools of 6 tendrils)
            System.dealloc(base, Layout::from_size_align_unchecked(total, layout.align()));
            return System.alloc(layout);
        }
        LIVE_COUNT.fetch_add(1, Ordering::Relaxed);
        ALLOCS.fetch_add(1, Ordering::Relaxed);
        user
    }

    #[allow(static_mut_refs)]
    unsafe fn dealloc(&self, ptr: *mut u8, layout: Layout) {
        lock();
        let found = find(ptr as usize);
        let entry = found.map(|i| {
            let e = TABLES.live[i];
            TABLES.live[i].state = 2;
            e
        });
        // is it in quarantine (double free)?
        let mut in_quarantine = false;
        if entry.is_none() {
            for q in TABLES.quarantine.iter() {
                if q.state == 1 && q.user == ptr as usize {
                    in_quarantine = true;
                    break;
                }
            }
        }
        unlock();
        match entry {
            None => {
                if in_quarantine {
                    ERR_DOUBLE_FREE.fetch_add(1, Ordering::Relaxed);
                    return; // do not free twice
                }
                System.dealloc(ptr, layout);
            },
            Some(e) => {
                LIVE_COUNT.fetch_sub(1, Ordering::Relaxed);
                FREES.fetch_add(1, Ordering::Relaxed);
                if e.size != layout.size() || e.align != layout.align() {
                    ERR_LAYOUT.fetch_add(1, Ordering::Relaxed);
                    LAST_LAYOUT_DETAIL[0].store(e.size, Ordering::Relaxed);
                    LAST_LAYOUT_DETAIL[1].store(layout.size(), Ordering::Relaxed);
                    LAST_LAYOUT_DETAIL[2].store(e.align, Ordering::Relaxed);
                    LAST_LAYOUT_DETAIL[3].store(layout.align(), Ordering::Relaxed);
                }
                if e.map_len != 0 {
                    // guard-page block: check the patterns, then unmap (later accesses fault)
                    let mut damaged = false;
                    let p = (e.user - e.front) as *const u8;
                    for k in 0..e.front {
                        if *p.add(k) != RZ_BYTE {
                            damaged = true;
                        }
                    }
                    let end = e.map_base + e.map_len - PAGE;
                    let mut q = e.user + e.size;
                    while q < end {
                        if *(q as *const u8) != RZ_BYTE {
                            damaged = true;
                        }
                        q += 1;
                    }
                    if damaged {
                        ERR_REDZONE.fetch_add(1, Ordering::Relaxed);
                    }
                    munmap(e.map_base as *mut u8, e.map_len);
                    lock();
                    let pos = TABLES.qpos;
                    let old = TABLES.quarantine[pos];
                    let mut gone = e;
                    gone.map_len = usize::MAX; // marker: memory no longer exists
                    TABLES.quarantine[pos] = gone;
                    TABLES.qpos = (pos + 1) % QUARANTINE;
                    unlock();
                    if old.state == 1 && old.map_len != usize::MAX {
                        check_poison_and_release(&old);
                    }
                    return;
                }
                let base = (e.user - e.front) as *const u8;
                let mut damaged = false;
                for k in 0..e.front {
                    if *base.add(k) != RZ_BYTE {
                        damaged = true;
                    }
                }
                for k in 0..RZ {
                    if *base.add(e.front + e.size + k) != RZ_BYTE {
                        damaged = true;
                    }
                }
                if damaged {
                    ERR_REDZONE.fetch_add(1, Ordering::Relaxed);
                }
                std::ptr::write_bytes(e.user as *mut u8, POISON, e.size);
                lock();
                let pos = TABLES.qpos;
                let old = TABLES.quarantine[pos];
                TABLES.quarantine[pos] = e;
                TABLES.qpos = (pos + 1) % QUARANTINE;
                unlock();
                if old.state == 1 && old.map_len != usize::MAX {
                    check_poison_and_release(&old);
                }
            },
        }
    }
}

#[derive(Debug, Default, Clone)]
pub struct Report {
    pub installed: bool,
    pub double_free: u64,
    pub layout_mismatch: u64,
    pub redzone: u64,
    pub write_after_free: u64,
    pub leaked_blocks: u64,
    pub allocs: u64,
    pub frees: u64,
    pub guarded: u64,
    pub layout_detail: [usize; 4],
}

impl Report {
    pub fn first_error(&self) -> Option<(String, String)> {
        if self.double_free > 0 {
            return Some(("double-free".into(), format!("{} blocks were freed twice", self.double_free)));
        }
        if self.layout_mismatch > 0 {
            return Some((
                "free-with-wrong-layout".into(),
                format!(
                    "{} blocks were freed with a layout different from their allocation (last: allocated size {} align {}, freed size {} align {})",
                    self.layout_mismatch, self.layout_detail[0], self.layout_detail[2], self.layout_detail[1], self.layout_detail[3]
                ),
            ));
        }
        if self.redzone > 0 {
            return Some(("out-of-bounds-write".into(), format!("{} blocks had a damaged red zone when freed", self.redzone)));
        }
        if self.write_after_free > 0 {
            return Some(("write-after-free".into(), format!("{} freed blocks were written to while quarantined", self.write_after_free)));
        }
        if self.leaked_blocks > 0 {
            return Some(("leak".into(), format!("{} blocks allocated by tendril operations were still live after every tendril was dropped", self.leaked_blocks)));
        }
        None
    }
}

pub fn is_active() -> bool {
    ACTIVE.load(Ordering::Relaxed)
}

/// Choose the block layout for the next regions: red zones + quarantine (false) or one mapping
/// per block ending at a guard page (true).
pub fn set_guard_mode(on: bool) {
    GUARD_MODE.store(on, Ordering::SeqCst);
}

/// Open a tracking region.  Everything allocated until `end_region` is tracked.
pub fn begin_region() {
    GUARDED.store(0, Ordering::Relaxed);
    ERR_DOUBLE_FREE.store(0, Ordering::Relaxed);
    ERR_LAYOUT.store(0, Ordering::Relaxed);
    ERR_REDZONE.store(0, Ordering::Relaxed);
    ERR_UAF_WRITE.store(0, Ordering::Relaxed);
    ALLOCS.store(0, Ordering::Relaxed);
    FREES.store(0, Ordering::Relaxed);
    LIVE_COUNT.store(0, Ordering::Relaxed);
    ACTIVE.store(true, Ordering::SeqCst);
}

/// Stop tracking new allocations (blocks already tracked stay tracked until freed).
pub fn pause_region() {
    ACTIVE.store(false, Ordering::SeqCst);
}

pub fn resume_region() {
    ACTIVE.store(true, Ordering::SeqCst);
}

/// Close the region: flush the quarantine (checking poison) and report.
#[allow(static_mut_refs)]
pub fn end_region() -> Report {
    ACTIVE.store(false, Ordering::SeqCst);
    unsafe {
        lock();
        let mut q = [EMPTY; QUARANTINE];
        for (i, e) in TABLES.quarantine.iter_mut().enumerate() {
            q[i] = *e;
            e.state = 0;
        }
        TABLES.qpos = 0;
        unlock();
        for e in q.iter() {
            if e.state == 1 && e.map_len != usize::MAX {
                check_poison_and_release(e);
            }
        }
    }
    let leaked = LIVE_COUNT.load(Ordering::Relaxed) as u64;
    // forget leaked entries so that the next region starts clean (the memory itself is abandoned)
    if leaked > 0 {
        unsafe {
            lock();
            for e in TABLES.live.iter_mut() {
                if e.state == 1 {
                    e.state = 2;
                }
            }
            unlock();
        }
        LIVE_COUNT.store(0, Ordering::Relaxed);
    }
    // compact tombstones now and then
    unsafe {
        lock();
        if LIVE_COUNT.load(Ordering::Relaxed) == 0 {
            for e in TABLES.live.iter_mut() {
                e.state = 0;
            }
        }
        unlock();
    }
    Report {
        installed: INSTALLED.load(Ordering::Relaxed),
        double_free: ERR_DOUBLE_FREE.load(Ordering::Relaxed),
        layout_mismatch: ERR_LAYOUT.load(Ordering::Relaxed),
        redzone: ERR_REDZONE.load(Ordering::Relaxed),
        write_after_free: ERR_UAF_WRITE.load(Ordering::Relaxed),
        leaked_blocks: leaked,
        allocs: ALLOCS.load(Ordering::Relaxed),
        frees: FREES.load(Ordering::Relaxed),
        guarded: GUARDED.load(Ordering::Relaxed),
        layout_detail: [
            LAST_LAYOUT_DETAIL[0].load(Ordering::Relaxed),
            LAST_LAYOUT_DETAIL[1].load(Ordering::Relaxed),
            LAST_LAYOUT_DETAIL[2].load(Ordering::Relaxed),
            LAST_LAYOUT_DETAIL[3].load(Ordering::Relaxed),
        ],
    }
}
