//! Hand-written PRNG so that generation never changes with a crate version.
//! SplitMix64 seeds one Xoshiro256** stream per case index.

#[derive(Clone, Debug)]
pub struct Rng {
    s: [u64; 4],
}

pub fn splitmix64(state: &mut u64) -> u64 {
    *state = state.wrapping_add(0x9E37_79B9_7F4A_7C15);
    let mut z = *state;
    z = (z ^ (z >> 30)).wrapping_mul(0xBF58_476D_1CE4_E5B9);
    z = (z ^ (z >> 27)).wrapping_mul(0x94D0_49BB_1331_11EB);
    z ^ (z >> 31)
}

/// 64-bit FNV-1a, used for digests and key hashes (never `DefaultHasher`,
/// whose keys are randomised per process).
pub fn fnv1a(bytes: &[u8]) -> u64 {
    let mut h: u64 = 0xcbf2_9ce4_8422_2325;
    for b in bytes {
        h ^= *b as u64;
        h = h.wrapping_mul(0x0000_0100_0000_01B3);
    }
    h
}

pub fn mix(a: u64, b: u64) -> u64 {
    let mut s = a ^ b.rotate_left(32) ^ 0x5851_F42D_4C95_7F2D;
    splitmix64(&mut s)
}

impl Rng {
    pub fn new(seed: u64) -> Rng {
        let mut st = seed;
        let s = [
            splitmix64(&mut st),
            splitmix64(&mut st),
            splitmix64(&mut st),
            splitmix64(&mut st),
        ];
        Rng { s }
    }

    /// The stream for case `case` of run seed `seed` in domain `domain`.
    pub fn for_case(seed: u64, domain: u64, case: u64) -> Rng {
        Rng::new(mix(mix(seed, domain), case))
    }

    pub fn next_u64(&mut self) -> u64 {
        let result = self.s[1].wrapping_mul(5).rotate_left(7).wrapping_mul(9);
        let t = self.s[1] << 17;
        self.s[2] ^= self.s[0];
        self.s[3] ^= self.s[1];
        self.s[1] ^= self.s[2];
        self.s[0] ^= self.s[3];
        self.s[2] ^= t;
        self.s[3] = self.s[3].rotate_left(45);
        result
    }

    /// Uniform in 0..n (n > 0).
    pub fn below(&mut self, n: usize) -> usize {
        debug_assert!(n > 0);
        ((self.next_u64() >> 11) % (n as u64)) as usize
    }

    /// Uniform in lo..=hi.
    pub fn range(&mut self, lo: usize, hi: usize) -> usize {
        lo + self.below(hi - lo + 1)
    }

    /// True with probability num/den.
    pub fn chance(&mut self, num: usize, den: usize) -> bool {
        self.below(den) < num
    }

    pub fn pick<'a, T>(&mut self, xs: &'a [T]) -> &'a T {
        &xs[self.below(xs.len())]
    }

    pub fn pick_str(&mut self, xs: &[&'static str]) -> &'static str {
        xs[self.below(xs.len())]
    }

    /// Geometric-ish length: small most of the time.
    pub fn small(&mut self, max: usize) -> usize {
        let mut n = 0;
        while n < max && self.chance(2, 3) {
            n += 1;
        }
        n
    }

    /// Weighted pick: weights[i] relative.
    pub fn weighted(&mut self, weights: &[u32]) -> usize {
        let total: u32 = weights.iter().sum();
        let mut r = self.below(total as usize) as u32;
        for (i, w) in weights.iter().enumerate() {
            if r < *w {
                return i;
            }
            r -= *w;
        }
        weights.len() - 1
    }
}
