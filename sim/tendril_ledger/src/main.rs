fn main(){}
