use encoding_rs::*;
fn main() {
    let hex = std::env::args().nth(1).unwrap();
    let bytes: Vec<u8> = (0..hex.len()/2).map(|i| u8::from_str_radix(&hex[2*i..2*i+2],16).unwrap()).collect();
    let mut dec = UTF_16LE.new_decoder();
    let mut steps = 0;
    for (k, b) in bytes.iter().enumerate() {
        let mut input: &[u8] = std::slice::from_ref(b);
        loop {
            steps += 1;
            let max_len = dec.max_utf8_buffer_length_without_replacement(input.len()).unwrap_or(8192);
            let mut out = vec![0u8; max_len.min(8192)];
            let (res, read, written) = dec.decode_to_utf8_without_replacement(input, &mut out, false);
            if steps < 400 || steps % 100000 == 0 { println!("byte#{k} in={:02x?} max_len={max_len} -> {:?} read={read} written={written}", input, res); }
            if let DecoderResult::InputEmpty = res { break; }
            input = &input[read..];
            if steps > 1000 { println!("SPIN"); return; }
        }
    }
}
