//! C10: byte-stream front ends (Utf8LossyDecoder, LossyDecoder over encoding_rs, from_utf8()
//! parsers, TendrilSink::read_from) under simulated byte delivery.

use std::borrow::Cow;
use std::cell::RefCell;
use std::io;
use std::rc::Rc;

use encoding_rs::{DecoderResult, Encoding};
use serde_json::{json, Value};
use tendril::stream::{LossyDecoder, TendrilSink, Utf8LossyDecoder};
use tendril::{fmt, ByteTendril, IncompleteUtf8, StrTendril, Tendril};

use crate::model::{ModelSink, SinkPolicy};
use crate::rng::{fnv1a, mix, Rng};
use crate::world::{greedy_min, CaseInfo, Stats, Violation, World};

pub const ENCODINGS: &[&str] = &[
    "utf-8", "utf-16le", "utf-16be", "big5", "euc-jp", "euc-kr", "gb18030", "gbk", "ibm866", "iso-2022-jp",
    "iso-8859-2", "iso-8859-3", "iso-8859-4", "iso-8859-5", "iso-8859-6", "iso-8859-7", "iso-8859-8", "iso-8859-8-i",
    "iso-8859-10", "iso-8859-13", "iso-8859-14", "iso-8859-15", "iso-8859-16", "koi8-r", "koi8-u", "macintosh",
    "replacement", "shift_jis", "windows-874", "windows-1250", "windows-1251", "windows-1252", "windows-1253",
    "windows-1254", "windows-1255", "windows-1256", "windows-1257", "windows-1258", "x-mac-cyrillic", "x-user-defined",
];

#[derive(Default)]
struct Rec {
    text: String,
    errors: u64,
    pieces: u64,
    bad_piece: Option<String>,
    finished: bool,
}

#[derive(Clone)]
struct RecSink {
    rec: Rc<RefCell<Rec>>,
}

thread_local! {
    /// F13: the next sinks created in this run re-enter the decoders from inside `process` /
    /// `error` (an "include" being expanded by the consumer): 0 = off, else which call re-enters
    static REENTER_AT: std::cell::Cell<u64> = const { std::cell::Cell::new(0) };
    static REENTER_BAD: std::cell::Cell<u64> = const { std::cell::Cell::new(0) };
    static REENTER_RUNS: std::cell::Cell<u64> = const { std::cell::Cell::new(0) };
}

/// A nested decode on the same thread while an outer decoder is in the middle of a chunk.
fn nested_decode() {
    struct Collect(String, u64);
    impl TendrilSink<fmt::UTF8> for Collect {
        type Output = (String, u64);
        fn process(&mut self, t: StrTendril) {
            self.0.push_str(&t);
        }
        fn error(&mut self, _d: Cow<'static, str>) {
            self.1 += 1;
        }
        fn finish(self) -> (String, u64) {
            (self.0, self.1)
        }
    }
    REENTER_RUNS.with(|c| c.set(c.get() + 1));
    let (a, ea) = Utf8LossyDecoder::new(Collect(String::new(), 0)).from_iter([ByteTendril::from_slice(&b"in\xC3"[..]), ByteTendril::from_slice(&b"\xA9c\xFF"[..])]);
    let enc = Encoding::for_label(b"shift_jis").expect("label");
    let (b, eb) = LossyDecoder::new_encoding_rs(enc, Collect(String::new(), 0)).from_iter([ByteTendril::from_slice(&b"\x82"[..]), ByteTendril::from_slice(&b"\xA0x\x81"[..])]);
    if a != "in\u{e9}c\u{fffd}" || ea != 1 || b != "\u{3042}x\u{fffd}" || eb != 1 {
        REENTER_BAD.with(|c| c.set(c.get() + 1));
    }
}

fn maybe_reenter(calls_so_far: u64) {
    let at = REENTER_AT.with(|c| c.get());
    if at != 0 && calls_so_far == at {
        // only once per run, and not from inside the nested decode itself
        REENTER_AT.with(|c| c.set(0));
        nested_decode();
    }
}

impl TendrilSink<fmt::UTF8> for RecSink {
    type Output = ();
    fn process(&mut self, t: StrTendril) {
        let mut r = self.rec.borrow_mut();
        let bytes: &[u8] = t.as_bytes().as_ref();
        match std::str::from_utf8(bytes) {
            Ok(s) => r.text.push_str(s),
            Err(_) => {
                if r.bad_piece.is_none() {
                    r.bad_piece = Some(format!("{:?}", bytes));
                }
                r.text.push_str(&String::from_utf8_lossy(bytes));
            },
        }
        r.pieces += 1;
        let calls = r.pieces + r.errors;
        drop(r);
        maybe_reenter(calls);
    }
    fn error(&mut self, _desc: Cow<'static, str>) {
        let calls = {
            let mut r = self.rec.borrow_mut();
            r.errors += 1;
            r.pieces + r.errors
        };
        maybe_reenter(calls);
    }
    fn finish(self) {
        self.rec.borrow_mut().finished = true;
    }
}

#[derive(Clone, Debug, PartialEq, Eq)]
enum ReadAct {
    Short(usize),
    Interrupted,
    Error,
}

#[derive(Clone, Debug, PartialEq, Eq)]
enum Delivery {
    Process { cuts: Vec<usize>, shared: bool },
    ReadFrom { script: Vec<ReadAct> },
    /// `TendrilSink::from_file`: "temp" = the case's bytes written to a scratch file; any other
    /// source is the path of a kernel pseudo-file whose reported size (0) is not its content size
    FromFile { source: String },
}

/// Constant pseudo-files: regular files by their metadata, size 0, content of some dozens of bytes.
const PSEUDO_FILES: &[&str] = &["/proc/version", "/proc/filesystems", "/proc/self/cmdline", "/proc/sys/kernel/ostype", "/proc/sys/kernel/osrelease"];

thread_local! {
    static FILE_SEQ: std::cell::Cell<u64> = const { std::cell::Cell::new(0) };
}

/// The bytes `from_file` has to deliver and the path to hand to it (plus whether to delete it).
fn file_source(c: &BCase) -> Option<(Vec<u8>, std::path::PathBuf, bool)> {
    let source = match &c.delivery {
        Delivery::FromFile { source } => source.clone(),
        _ => return None,
    };
    if let Some(path) = source.strip_prefix('=') {
        return Some((c.bytes.clone(), std::path::PathBuf::from(path), false));
    }
    if source == "temp" {
        let n = FILE_SEQ.with(|s| {
            s.set(s.get() + 1);
            s.get()
        });
        let path = std::env::temp_dir().join(format!("verif-sim-{}-{}.bin", std::process::id(), n));
        std::fs::write(&path, &c.bytes).ok()?;
        Some((c.bytes.clone(), path, true))
    } else {
        let bytes = std::fs::read(&source).ok()?;
        Some((bytes, std::path::PathBuf::from(source), false))
    }
}

#[derive(Clone, Debug, PartialEq, Eq)]
struct BCase {
    bytes: Vec<u8>,
    encoding: String,
    /// "decoder" | "html" | "xml"
    pipeline: String,
    delivery: Delivery,
    /// 0 = LossyDecoder::new_encoding_rs (BOM sniffing), 1 = decoder with BOM removal, 2 = without BOM handling
    decoder_kind: u8,
}

struct SimReader<'a> {
    data: &'a [u8],
    pos: usize,
    script: &'a [ReadAct],
    step: usize,
    pub interrupted: u64,
    pub short_reads: u64,
    pub errored: bool,
    consecutive_interrupts: u32,
}

impl<'a> io::Read for SimReader<'a> {
    fn read(&mut self, buf: &mut [u8]) -> io::Result<usize> {
        let mut act = if self.script.is_empty() { ReadAct::Short(4096) } else { self.script[self.step % self.script.len()].clone() };
        self.step += 1;
        // a fair reader: Interrupted is transient, never more than three times in a row
        if act == ReadAct::Interrupted {
            self.consecutive_interrupts += 1;
            if self.consecutive_interrupts > 3 {
                act = ReadAct::Short(7);
            }
        }
        if act != ReadAct::Interrupted {
            self.consecutive_interrupts = 0;
        }
        match act {
            ReadAct::Interrupted => {
                self.interrupted += 1;
                Err(io::Error::new(io::ErrorKind::Interrupted, "simulated EINTR"))
            },
            ReadAct::Error if !self.errored => {
                self.errored = true;
                Err(io::Error::new(io::ErrorKind::Other, "simulated I/O error"))
            },
            ReadAct::Error => Err(io::Error::new(io::ErrorKind::Other, "simulated I/O error")),
            ReadAct::Short(n) => {
                let n = n.max(1).min(buf.len()).min(self.data.len() - self.pos);
                if n < buf.len() && n > 0 {
                    self.short_reads += 1;
                }
                buf[..n].copy_from_slice(&self.data[self.pos..self.pos + n]);
                self.pos += n;
                Ok(n)
            },
        }
    }
}

fn hex(b: &[u8]) -> String {
    b.iter().map(|x| format!("{:02x}", x)).collect()
}
fn unhex(s: &str) -> Vec<u8> {
    (0..s.len() / 2).filter_map(|i| u8::from_str_radix(&s[2 * i..2 * i + 2], 16).ok()).collect()
}

fn emit(c: &BCase) -> Value {
    let d = match &c.delivery {
        Delivery::Process { cuts, shared } => json!({"kind": "process", "cuts": cuts, "shared": shared}),
        Delivery::ReadFrom { script } => json!({"kind": "read_from", "script": script.iter().map(|a| match a {
            ReadAct::Short(n) => json!(["short", n]),
            ReadAct::Interrupted => json!(["interrupted"]),
            ReadAct::Error => json!(["error"]),
        }).collect::<Vec<_>>()}),
        Delivery::FromFile { source } => json!({"kind": "from_file", "source": source}),
    };
    json!({"bytes_hex": hex(&c.bytes), "bytes_lossy": String::from_utf8_lossy(&c.bytes[..c.bytes.len().min(200)]), "encoding": c.encoding, "pipeline": c.pipeline, "delivery": d, "decoder_kind": c.decoder_kind})
}

fn parse(v: &Value) -> BCase {
    let d = &v["delivery"];
    let delivery = if d["kind"].as_str() == Some("from_file") {
        Delivery::FromFile { source: d["source"].as_str().unwrap_or("temp").to_string() }
    } else if d["kind"].as_str() == Some("read_from") {
        Delivery::ReadFrom {
            script: d["script"]
                .as_array()
                .map(|a| {
                    a.iter()
                        .map(|x| match x[0].as_str().unwrap_or("") {
                            "interrupted" => ReadAct::Interrupted,
                            "error" => ReadAct::Error,
                            _ => ReadAct::Short(x[1].as_u64().unwrap_or(1) as usize),
                        })
                        .collect()
                })
                .unwrap_or_default(),
        }
    } else {
        Delivery::Process {
            cuts: d["cuts"].as_array().map(|a| a.iter().map(|x| x.as_u64().unwrap_or(0) as usize).collect()).unwrap_or_default(),
            shared: d["shared"].as_bool().unwrap_or(false),
        }
    };
    BCase {
        bytes: unhex(v["bytes_hex"].as_str().unwrap_or("")),
        encoding: v["encoding"].as_str().unwrap_or("utf-8").to_string(),
        pipeline: v["pipeline"].as_str().unwrap_or("decoder").to_string(),
        delivery,
        decoder_kind: v["decoder_kind"].as_u64().unwrap_or(0) as u8,
    }
}

// ------------------------------------------------------------------ generation

const UTF8_BAD: &[&[u8]] = &[
    &[0xC0, 0xAF],             // overlong
    &[0xE0, 0x80, 0xAF],       // overlong 3
    &[0xF0, 0x80, 0x80, 0xAF], // overlong 4
    &[0xED, 0xA0, 0x80],       // surrogate
    &[0xED, 0xBF, 0xBF],
    &[0xF4, 0x90, 0x80, 0x80], // > U+10FFFF
    &[0xF8, 0x88, 0x80, 0x80, 0x80],
    &[0xC3],             // truncated 2
    &[0xE4, 0xB8],       // truncated 3
    &[0xE4],             // truncated 3 after 1
    &[0xF0, 0x9F, 0x98], // truncated 4
    &[0xF0, 0x9F],
    &[0xF0],
    &[0x80],       // stray continuation
    &[0xBF, 0xBF], // two stray
    &[0xFF],
    &[0xFE],
    &[0xE1, 0x80, 0xE1, 0x80], // truncated followed by lead
    &[0xF1, 0x80, 0x80, 0xC3, 0xA9],
];

fn gen_utf8ish(rng: &mut Rng, len: usize, html: bool) -> Vec<u8> {
    let mut v = Vec::new();
    if rng.chance(1, 10) {
        v.extend_from_slice(&[0xEF, 0xBB, 0xBF]);
    }
    while v.len() < len {
        match rng.below(10) {
            0 | 1 => { let b: &[u8] = UTF8_BAD[rng.below(UTF8_BAD.len())]; v.extend_from_slice(b) },
            2 => v.extend_from_slice("é中😀€".as_bytes()),
            3 => v.extend_from_slice(&[0xEF, 0xBF, 0xBD]), // a genuine U+FFFD
            4 if html => v.extend_from_slice(rng.pick_str(&["<p>", "</p>", "<b a='", "'>", "<!--", "-->", "<script>", "</script>", "&amp;", "<table>", "\r\n"]).as_bytes()),
            5 => v.push(*rng.pick(b"\r\n\0 <&")),
            _ => {
                for _ in 0..rng.range(1, 6) {
                    v.push(b'a' + rng.below(26) as u8);
                }
            },
        }
    }
    v
}

fn gen_for_encoding(rng: &mut Rng, enc: &str, len: usize) -> Vec<u8> {
    let mut v = Vec::new();
    match rng.below(14) {
        0 => v.extend_from_slice(&[0xEF, 0xBB, 0xBF]),
        1 => v.extend_from_slice(&[0xFF, 0xFE]),
        2 => v.extend_from_slice(&[0xFE, 0xFF]),
        // byte-order marks that stop short: the decoder's sniffing buffer has to be replayed
        3 => v.extend_from_slice(*rng.pick(&[&[0xEFu8][..], &[0xEF, 0xBB], &[0xEF, 0xBB, 0x41], &[0xEF, 0x41], &[0xFF], &[0xFE], &[0xFF, 0x41], &[0xEF, 0xBB, 0xEF, 0xBB, 0xBF]])),
        _ => {},
    }
    while v.len() < len {
        match enc {
            "utf-8" => {
                let l = rng.range(1, 12);
                v.extend(gen_utf8ish(rng, l, false))
            },
            "utf-16le" | "utf-16be" => {
                let u: u16 = match rng.below(8) {
                    0 => 0xD800 + rng.below(0x400) as u16,
                    1 => 0xDC00 + rng.below(0x400) as u16,
                    2 => 0xFEFF,
                    3 => 0xFFFE,
                    4 => 0x4E2D,
                    _ => 0x41 + rng.below(26) as u16,
                };
                if enc == "utf-16le" {
                    v.extend_from_slice(&u.to_le_bytes());
                } else {
                    v.extend_from_slice(&u.to_be_bytes());
                }
                if rng.chance(1, 30) {
                    v.push(0x41); // odd byte: units are now misaligned
                }
            },
            "iso-2022-jp" => match rng.below(10) {
                0 => v.extend_from_slice(b"\x1b$B"),
                1 => v.extend_from_slice(b"\x1b(B"),
                2 => v.extend_from_slice(b"\x1b(J"),
                3 => v.extend_from_slice(b"\x1b(I"),
                4 => v.extend_from_slice(b"\x1b$@"),
                5 => v.extend_from_slice(&[0x1b, *rng.pick(b"$(xB")]),
                6 => v.push(0x1b),
                7 => v.push(0x80 + rng.below(0x80) as u8),
                _ => {
                    v.push(0x21 + rng.below(0x5E) as u8);
                    v.push(0x21 + rng.below(0x5E) as u8);
                },
            },
            "gb18030" if rng.chance(1, 4) => {
                v.push(0x81 + rng.below(0x7E) as u8);
                v.push(0x30 + rng.below(10) as u8);
                v.push(0x81 + rng.below(0x7E) as u8);
                if rng.chance(9, 10) {
                    v.push(0x30 + rng.below(10) as u8);
                }
            },
            "big5" | "euc-jp" | "euc-kr" | "gb18030" | "gbk" | "shift_jis" => match rng.below(8) {
                0 => v.push(0x81 + rng.below(0x7E) as u8), // lone lead
                1 => v.push(b'a' + rng.below(26) as u8),
                2 => v.push(0x8E), // EUC-JP half-width katakana lead
                3 => v.extend_from_slice(&[0x8F, 0xA1 + rng.below(0x5E) as u8, 0xA1 + rng.below(0x5E) as u8]),
                _ => {
                    v.push(0x81 + rng.below(0x7E) as u8);
                    v.push(0x40 + rng.below(0xBF) as u8);
                },
            },
            _ => v.push(if rng.chance(2, 3) { 0x80 + rng.below(0x80) as u8 } else { rng.below(0x80) as u8 }),
        }
    }
    // end of stream in the middle of a sequence
    if rng.chance(1, 4) && !v.is_empty() {
        let cut = rng.range(1, 3).min(v.len());
        v.truncate(v.len() - cut + 1);
    }
    v
}

fn gen_byte_cuts(rng: &mut Rng, bytes: &[u8]) -> Vec<usize> {
    let n = bytes.len();
    let mut cuts = vec![];
    if n == 0 {
        return cuts;
    }
    match rng.below(5) {
        0 => cuts.extend(1..n),
        1 => {
            let mut i = 0;
            loop {
                i += rng.range(1, 6);
                if i >= n {
                    break;
                }
                cuts.push(i);
            }
        },
        2 => {
            for _ in 0..rng.range(1, 3) {
                cuts.push(rng.below(n + 1));
            }
        },
        3 => {
            // inside multi-byte sequences / escapes
            for i in 1..n {
                if (bytes[i] >= 0x80 || bytes[i - 1] >= 0x80 || bytes[i - 1] == 0x1b || bytes[i] == b'$' || bytes[i] == b'(') && rng.chance(1, 2) {
                    cuts.push(i);
                }
            }
        },
        _ => {},
    }
    if rng.chance(1, 8) && !cuts.is_empty() {
        let c = *rng.pick(&cuts);
        cuts.push(c); // empty chunk
    }
    cuts.sort_unstable();
    cuts
}

pub struct BytesWorld;

impl BytesWorld {
    fn gen_case(&self, rng: &mut Rng, thorough: bool) -> BCase {
        let pipeline = *rng.pick(&["decoder", "decoder", "decoder", "html", "xml"]);
        let encoding = if pipeline != "decoder" || rng.chance(2, 5) { "utf-8".to_string() } else { rng.pick(ENCODINGS).to_string() };
        let len = if rng.chance(1, if thorough { 25 } else { 60 }) { rng.range(3000, 12000) } else { *rng.pick(&[0usize, 1, 2, 3, 4, 5, 8, 13, 21, 40, 80, 200]) };
        let big = rng.chance(1, 150);
        let bytes = if big && (encoding == "utf-8" || rng.chance(1, 2)) {
            // big chunks: every window / buffer boundary of a block-wise decoder falls inside a
            // multi-byte sequence for some alignment
            let mut n = *rng.pick(&[4096usize, 8192, 16384, 16384, 32768, 65536, 65536, 131072]) + rng.below(8);
            if rng.chance(1, 3) {
                n += rng.below(n / 2 + 1);
            }
            let mut v: Vec<u8> = Vec::with_capacity(n + 8);
            for _ in 0..rng.below(4) {
                v.push(b'a');
            }
            let filler: &[&str] = match rng.below(4) {
                0 => &["é"],
                1 => &["中"],
                2 => &["😀"],
                _ => &["é", "中", "😀", "a", "\r\n"],
            };
            while v.len() < n {
                if rng.chance(1, 2000) {
                    let b: &[u8] = UTF8_BAD[rng.below(UTF8_BAD.len())];
                    v.extend_from_slice(b);
                } else {
                    v.extend_from_slice(rng.pick_str(filler).as_bytes());
                }
            }
            if pipeline != "decoder" {
                let mut w = b"<p>".to_vec();
                w.extend_from_slice(&v);
                w
            } else {
                v
            }
        } else if pipeline != "decoder" {
            gen_utf8ish(rng, len.min(400), true)
        } else if encoding == "utf-8" && rng.chance(1, 2) {
            gen_utf8ish(rng, len, false)
        } else {
            gen_for_encoding(rng, &encoding, len)
        };
        let delivery = if rng.chance(1, 300) {
            Delivery::FromFile { source: if rng.chance(1, 2) { "temp".to_string() } else { rng.pick(PSEUDO_FILES).to_string() } }
        } else if rng.chance(1, 3) {
            let mut script = vec![];
            for _ in 0..rng.range(1, 6) {
                script.push(match rng.below(10) {
                    0 | 1 => ReadAct::Interrupted,
                    2 => ReadAct::Short(4096),
                    3 => ReadAct::Short(4095),
                    _ => ReadAct::Short(rng.range(1, 9)),
                });
            }
            if rng.chance(1, 8) {
                let at = rng.below(script.len() + 1);
                script.insert(at, ReadAct::Error);
            }
            Delivery::ReadFrom { script }
        } else {
            Delivery::Process { cuts: gen_byte_cuts(rng, &bytes), shared: rng.chance(1, 2) }
        };
        let decoder_kind = if pipeline == "decoder" && rng.chance(1, 3) { 1 + rng.below(2) as u8 } else { 0 };
        BCase { bytes, encoding, pipeline: pipeline.to_string(), delivery, decoder_kind }
    }
}

fn make_decoder(enc: &'static Encoding, kind: u8) -> encoding_rs::Decoder {
    match kind {
        1 => enc.new_decoder_with_bom_removal(),
        2 => enc.new_decoder_without_bom_handling(),
        _ => enc.new_decoder(),
    }
}

fn make_lossy(enc: &'static Encoding, kind: u8, sink: RecSink) -> LossyDecoder<RecSink> {
    match kind {
        0 => LossyDecoder::new_encoding_rs(enc, sink),
        k => LossyDecoder::new_from_encoding_rs_decoder(make_decoder(enc, k), sink),
    }
}

/// Expected decoding: (text, number of replacements).
fn reference(c: &BCase) -> (String, u64) {
    if c.encoding == "utf-8" && c.decoder_kind == 0 {
        let mut text = String::new();
        let mut errs = 0;
        for chunk in c.bytes.utf8_chunks() {
            text.push_str(chunk.valid());
            if !chunk.invalid().is_empty() {
                text.push('\u{fffd}');
                errs += 1;
            }
        }
        debug_assert_eq!(text, String::from_utf8_lossy(&c.bytes));
        return (text, errs);
    }
    let enc = Encoding::for_label(c.encoding.as_bytes()).expect("known label");
    let mut dec = make_decoder(enc, c.decoder_kind);
    let mut out = String::new();
    let mut errs = 0;
    let mut pos = 0;
    loop {
        out.reserve(dec.max_utf8_buffer_length_without_replacement(c.bytes.len() - pos).unwrap_or(8192) + 16);
        let (res, read) = dec.decode_to_string_without_replacement(&c.bytes[pos..], &mut out, true);
        pos += read;
        match res {
            DecoderResult::InputEmpty => break,
            DecoderResult::OutputFull => {},
            DecoderResult::Malformed(_, _) => {
                out.push('\u{fffd}');
                errs += 1;
            },
        }
    }
    (out, errs)
}

fn chunks_of(c: &BCase) -> Vec<ByteTendril> {
    let (cuts, shared) = match &c.delivery {
        Delivery::Process { cuts, shared } => (cuts.clone(), *shared),
        _ => (vec![], false),
    };
    let n = c.bytes.len();
    let mut bounds = vec![0];
    bounds.extend(cuts.iter().map(|x| (*x).min(n)));
    bounds.push(n);
    let parent: Option<ByteTendril> = if shared { Some(Tendril::from_slice(&c.bytes[..])) } else { None };
    bounds
        .windows(2)
        .map(|w| {
            let (a, b) = (w[0], w[1].max(w[0]));
            match &parent {
                Some(p) => p.subtendril(a as u32, (b - a) as u32),
                None => Tendril::from_slice(&c.bytes[a..b]),
            }
        })
        .collect()
}

/// The three ways the provided `TendrilSink` methods let a caller hand chunks over: process() for
/// each and finish(); process() for all but the last and `one(last)`; `from_iter(all)`.
fn feed_all<S: TendrilSink<fmt::Bytes>>(mut d: S, mut chunks: Vec<ByteTendril>, how: usize) -> S::Output {
    if how % 11 == 7 {
        // the producer reports an error of its own through the decoder (a transport hiccup): it has
        // to reach the consumer like any other (counted by the caller as one more expected error)
        d.error("reported by the producer".into());
    }
    match how % 3 {
        1 if !chunks.is_empty() => {
            let last = chunks.pop().unwrap();
            for ch in chunks {
                d.process(ch);
            }
            d.one(last)
        },
        2 => d.from_iter(chunks),
        _ => {
            for ch in chunks {
                d.process(ch);
            }
            d.finish()
        },
    }
}

/// The do-it-yourself streaming decoder `tendril` exports next to `Utf8LossyDecoder`:
/// `ByteTendril::decode_utf8_lossy` per chunk, and `IncompleteUtf8::try_complete` to splice what a
/// chunk left unfinished with the next one (this API pushes U+FFFD itself and has no error channel).
fn manual_utf8_decode(mut sink: RecSink, chunks: Vec<ByteTendril>) {
    let mut pending: Option<IncompleteUtf8> = None;
    for mut ch in chunks {
        if let Some(mut inc) = pending.take() {
            match inc.try_complete(ch, |t| sink.process(t)) {
                Ok(rest) => ch = rest,
                Err(()) => {
                    // the whole chunk went into the pending sequence and it is still unfinished
                    pending = Some(inc);
                    continue;
                },
            }
        }
        pending = ch.decode_utf8_lossy(|t| sink.process(t));
    }
    if pending.is_some() {
        sink.process(StrTendril::from_slice("\u{fffd}"));
    }
    sink.finish();
}

fn model_sink() -> ModelSink {
    ModelSink::new(SinkPolicy { attach_ok: false, allow_shadow: true, record_calls: false, emulate_never_mirror: false }, None, false)
}

fn run(c: &BCase, stats: &mut Stats) -> Result<u64, Violation> {
    if let Delivery::FromFile { source } = &c.delivery {
        if source != "temp" && !source.starts_with('=') {
            // the content is whatever the kernel reports: read it once ourselves, check from_file
            // against that, and keep it out of the digest (it differs between machines)
            return match std::fs::read(source) {
                Err(_) => {
                    stats.inc("F12_pseudo_file_unavailable");
                    Ok(0xF11E)
                },
                Ok(bytes) => {
                    let mut k = c.clone();
                    k.bytes = bytes;
                    k.delivery = Delivery::FromFile { source: format!("={source}") };
                    stats.inc("F12_from_file_size_lying_pseudo_file");
                    run(&k, stats).map(|_| 0xF11E)
                },
            };
        }
    }
    let (want_text, want_errs) = reference(c);
    if want_errs > 0 {
        stats.inc("cases_with_ill_formed_input");
    }
    // F13 (one decoder case in eight): the consumer runs two small decodes of its own from inside
    // its first, second or third callback
    let reenter = c.pipeline == "decoder" && (c.bytes.len() + c.encoding.len()) % 8 == 3;
    REENTER_AT.with(|x| x.set(if reenter { 1 + (c.bytes.len() as u64 / 8) % 3 } else { 0 }));
    REENTER_BAD.with(|x| x.set(0));
    REENTER_RUNS.with(|x| x.set(0));
    stats.add("expected_replacements", want_errs);
    let hard_error = matches!(&c.delivery, Delivery::ReadFrom { script } if script.contains(&ReadAct::Error));
    match c.pipeline.as_str() {
        "decoder" => {
            let rec = Rc::new(RefCell::new(Rec::default()));
            let sink = RecSink { rec: rec.clone() };
            let mut io_err = false;
            let mut errors_na = false;
            let mut producer_errors = 0u64;
            match &c.delivery {
                Delivery::Process { .. } => {
                    let chunks = chunks_of(c);
                    stats.add("F8_byte_chunks_delivered", chunks.len() as u64);
                    let how = chunks.len() + c.bytes.len() / 2;
                    stats.inc(["chunks_handed_over_by_process_finish", "chunks_handed_over_by_process_then_one", "chunks_handed_over_by_from_iter"][how % 3]);
                    if c.encoding == "utf-8" && c.decoder_kind == 0 && c.bytes.len() % 4 == 1 && !reenter {
                        stats.inc("chunks_decoded_by_hand_with_decode_utf8_lossy_and_try_complete");
                        errors_na = true;
                        manual_utf8_decode(sink, chunks);
                    } else if c.encoding == "utf-8" && c.decoder_kind == 0 && c.bytes.len() % 2 == 0 {
                        producer_errors = (how % 11 == 7) as u64;
                        feed_all(Utf8LossyDecoder::new(sink), chunks, how);
                    } else {
                        producer_errors = (how % 11 == 7) as u64;
                        let enc = Encoding::for_label(c.encoding.as_bytes()).expect("label");
                        let mut d = make_lossy(enc, c.decoder_kind, sink);
                        if how % 13 == 5 {
                            // the accessors hand out the consumer itself
                            d.inner_sink_mut().rec.borrow_mut().pieces += 0;
                            if !Rc::ptr_eq(&d.inner_sink().rec, &rec) {
                                return Err(Violation::new("inner-sink-accessor", "inner_sink() is not the sink the decoder was built with".into()));
                            }
                        }
                        feed_all(d, chunks, how);
                    }
                    stats.add("errors_reported_by_the_producer_through_the_decoder", producer_errors);
                },
                Delivery::FromFile { .. } => {
                    let (_, path, delete) = file_source(c).expect("file source checked by the caller");
                    let res = if c.encoding == "utf-8" && c.decoder_kind == 0 {
                        Utf8LossyDecoder::new(sink).from_file(&path)
                    } else {
                        let enc = Encoding::for_label(c.encoding.as_bytes()).expect("label");
                        make_lossy(enc, c.decoder_kind, sink).from_file(&path)
                    };
                    if delete {
                        let _ = std::fs::remove_file(&path);
                    }
                    stats.inc("F12_from_file_runs");
                    if let Err(e) = res {
                        return Err(Violation::new("spurious-io-error", format!("from_file({}) returned Err({e})", path.display())));
                    }
                },
                Delivery::ReadFrom { script } => {
                    let mut r = SimReader { data: &c.bytes, pos: 0, script, step: 0, interrupted: 0, short_reads: 0, errored: false, consecutive_interrupts: 0 };
                    let res = if c.encoding == "utf-8" && c.decoder_kind == 0 {
                        Utf8LossyDecoder::new(sink).read_from(&mut r)
                    } else {
                        let enc = Encoding::for_label(c.encoding.as_bytes()).expect("label");
                        make_lossy(enc, c.decoder_kind, sink).read_from(&mut r)
                    };
                    stats.add("F8_reads_interrupted", r.interrupted);
                    stats.add("F8_short_reads", r.short_reads);
                    if r.errored {
                        stats.inc("F8_hard_read_errors");
                    }
                    match res {
                        Ok(()) => {
                            if r.errored {
                                return Err(Violation::new("io-error-swallowed", "read_from returned Ok although the reader reported a hard error".into()));
                            }
                        },
                        Err(e) => {
                            if !r.errored {
                                return Err(Violation::new("spurious-io-error", format!("read_from returned Err({e}) although the reader only reported Interrupted / short reads")));
                            }
                            io_err = true;
                        },
                    }
                },
            }
            REENTER_AT.with(|x| x.set(0));
            stats.add("F13_sink_reentered_the_decoders", REENTER_RUNS.with(|x| x.get()));
            if REENTER_BAD.with(|x| x.get()) > 0 {
                return Err(Violation::new("nested-decode-differs", "a decode run by the sink from inside its callback delivered the wrong text".into()));
            }
            let r = rec.borrow();
            if let Some(b) = &r.bad_piece {
                return Err(Violation::new("invalid-utf8-delivered", format!("inner sink received a StrTendril that is not valid UTF-8: {b}")));
            }
            if want_text.len() > 8192 {
                stats.inc("probe_decoded_output_over_8192_bytes");
            }
            if io_err {
                // narrow relaxation: after an injected hard error only a prefix may have been delivered
                if !want_text.starts_with(&r.text.trim_end_matches('\u{fffd}')) && !want_text.starts_with(&r.text[..]) {
                    return Err(Violation::new("wrong-data-after-io-error", format!("delivered {:?} is not a prefix of the expected decoding", trunc(&r.text))));
                }
                return Ok(fnv1a(r.text.as_bytes()));
            }
            if hard_error {
                // the error action was never reached (stream ended first)
            }
            if r.text != want_text {
                return Err(Violation::new("decoded-text-differs", format!("{}: delivered {:?}, one-shot lossy decode {:?}", c.encoding, first_diff_ctx(&r.text, &want_text), first_diff_ctx(&want_text, &r.text))));
            }
            if r.errors != want_errs + producer_errors && !errors_na {
                return Err(Violation::new("error-count-differs", format!("{}: {} error() calls, {} replacements expected", c.encoding, r.errors, want_errs)));
            }
            if !r.finished {
                return Err(Violation::new("inner-sink-not-finished", "finish() did not reach the inner sink".into()));
            }
            Ok(mix(fnv1a(r.text.as_bytes()), r.errors - producer_errors.min(r.errors)))
        },
        "html" | "xml" => {
            let is_html = c.pipeline == "html";
            // reference tree: parse the lossy string in one piece
            let want_tree = if is_html {
                html5ever::driver::parse_document(model_sink(), Default::default()).one(StrTendril::from_slice(&want_text)).dom.borrow().normal_form()
            } else {
                xml5ever::driver::parse_document(model_sink(), Default::default()).one(StrTendril::from_slice(&want_text)).dom.borrow().normal_form()
            };
            let got: Result<ModelSink, io::Error> = match &c.delivery {
                Delivery::Process { .. } => {
                    let chunks = chunks_of(c);
                    stats.add("F8_byte_chunks_delivered", chunks.len() as u64);
                    let how = chunks.len() + c.bytes.len() / 2;
                    if is_html {
                        Ok(feed_all(html5ever::driver::parse_document(model_sink(), Default::default()).from_utf8(), chunks, how))
                    } else {
                        Ok(feed_all(xml5ever::driver::parse_document(model_sink(), Default::default()).from_utf8(), chunks, how))
                    }
                },
                Delivery::FromFile { .. } => {
                    let (_, path, delete) = file_source(c).expect("file source checked by the caller");
                    let res = if is_html {
                        html5ever::driver::parse_document(model_sink(), Default::default()).from_utf8().from_file(&path)
                    } else {
                        xml5ever::driver::parse_document(model_sink(), Default::default()).from_utf8().from_file(&path)
                    };
                    if delete {
                        let _ = std::fs::remove_file(&path);
                    }
                    stats.inc("F12_from_file_runs");
                    if res.is_err() {
                        return Err(Violation::new("spurious-io-error", format!("from_file({}) returned Err", path.display())));
                    }
                    res
                },
                Delivery::ReadFrom { script } => {
                    let mut r = SimReader { data: &c.bytes, pos: 0, script, step: 0, interrupted: 0, short_reads: 0, errored: false, consecutive_interrupts: 0 };
                    let res = if is_html {
                        html5ever::driver::parse_document(model_sink(), Default::default()).from_utf8().read_from(&mut r)
                    } else {
                        xml5ever::driver::parse_document(model_sink(), Default::default()).from_utf8().read_from(&mut r)
                    };
                    stats.add("F8_reads_interrupted", r.interrupted);
                    stats.add("F8_short_reads", r.short_reads);
                    if r.errored {
                        stats.inc("F8_hard_read_errors");
                    }
                    if res.is_ok() && r.errored {
                        return Err(Violation::new("io-error-swallowed", "read_from returned Ok although the reader reported a hard error".into()));
                    }
                    if res.is_err() && !r.errored {
                        return Err(Violation::new("spurious-io-error", "read_from returned Err although the reader only reported Interrupted / short reads".into()));
                    }
                    res
                },
            };
            match got {
                Err(_) => Ok(1),
                Ok(sink) => {
                    let tree = sink.dom.borrow().normal_form();
                    if tree != want_tree {
                        return Err(Violation::new("tree-differs-from-lossy-string-parse", format!("{} from_utf8(): {}", c.pipeline, line_diff(&want_tree, &tree))));
                    }
                    // one parse error per replacement reaches the tree sink (plus the parser's own)
                    Ok(fnv1a(tree.as_bytes()))
                },
            }
        },
        _ => Ok(0),
    }
}

fn trunc(s: &str) -> String {
    s.chars().take(60).collect()
}

fn first_diff_ctx(a: &str, b: &str) -> String {
    let ac: Vec<char> = a.chars().collect();
    let bc: Vec<char> = b.chars().collect();
    let mut i = 0;
    while i < ac.len() && i < bc.len() && ac[i] == bc[i] {
        i += 1;
    }
    let lo = i.saturating_sub(5);
    format!("…{}… (char {} of {})", ac[lo..(i + 10).min(ac.len())].iter().collect::<String>().escape_debug(), i, ac.len())
}

fn line_diff(a: &str, b: &str) -> String {
    let la: Vec<&str> = a.lines().collect();
    let lb: Vec<&str> = b.lines().collect();
    for i in 0..la.len().max(lb.len()) {
        if la.get(i) != lb.get(i) {
            return format!("tree line {}: expected {:?}, observed {:?}", i, la.get(i), lb.get(i));
        }
    }
    "no difference".into()
}

fn candidates(c: &BCase) -> Vec<BCase> {
    let mut out = vec![];
    match &c.delivery {
        Delivery::Process { cuts, shared } => {
            if !cuts.is_empty() {
                let mut n = c.clone();
                n.delivery = Delivery::Process { cuts: vec![], shared: *shared };
                out.push(n);
                for i in 0..cuts.len().min(48) {
                    let mut k = cuts.clone();
                    k.remove(i * cuts.len() / cuts.len().min(48));
                    let mut n = c.clone();
                    n.delivery = Delivery::Process { cuts: k, shared: *shared };
                    out.push(n);
                }
                if cuts.len() > 4 {
                    let mut n = c.clone();
                    n.delivery = Delivery::Process { cuts: cuts[..cuts.len() / 2].to_vec(), shared: *shared };
                    out.push(n);
                    let mut n = c.clone();
                    n.delivery = Delivery::Process { cuts: cuts[cuts.len() / 2..].to_vec(), shared: *shared };
                    out.push(n);
                }
            }
            if *shared {
                let mut n = c.clone();
                n.delivery = Delivery::Process { cuts: cuts.clone(), shared: false };
                out.push(n);
            }
        },
        Delivery::FromFile { .. } => {},
        Delivery::ReadFrom { script } => {
            for i in 0..script.len() {
                let mut s = script.clone();
                s.remove(i);
                let mut n = c.clone();
                n.delivery = Delivery::ReadFrom { script: s };
                out.push(n);
            }
            let mut n = c.clone();
            n.delivery = Delivery::Process { cuts: vec![], shared: false };
            out.push(n);
        },
    }
    // remove byte spans
    let n = c.bytes.len();
    let mut size = n / 2;
    let mut produced = 0;
    while size >= 1 && produced < 3000 {
        let mut start = 0;
        while start < n {
            let end = (start + size).min(n);
            let mut b = c.bytes[..start].to_vec();
            b.extend_from_slice(&c.bytes[end..]);
            let mut k = c.clone();
            k.bytes = b;
            if let Delivery::Process { cuts, shared } = &c.delivery {
                let len = end - start;
                k.delivery = Delivery::Process {
                    cuts: cuts.iter().map(|&x| if x <= start { x } else if x >= end { x - len } else { start }).collect(),
                    shared: *shared,
                };
            }
            out.push(k);
            produced += 1;
            start += size;
        }
        if size == 1 {
            break;
        }
        size /= 2;
    }
    out
}

impl World for BytesWorld {
    fn property(&self) -> &'static str {
        "C10"
    }
    fn world_name(&self) -> &'static str {
        "byte-stream"
    }
    fn gen(&self, rng: &mut Rng, thorough: bool) -> Value {
        emit(&self.gen_case(rng, thorough))
    }
    fn check(&self, case: &Value, stats: &mut Stats, _t: &[String]) -> (CaseInfo, Result<(), Violation>) {
        let c = parse(case);
        let key = fnv1a(format!("{}{}{}{:?}", hex(&c.bytes), c.encoding, c.pipeline, c.delivery).as_bytes());
        let nontrivial = !c.bytes.is_empty()
            && match &c.delivery {
                Delivery::Process { cuts, .. } => !cuts.is_empty(),
                Delivery::ReadFrom { .. } | Delivery::FromFile { .. } => true,
            };
        stats.add("events", 1 + match &c.delivery {
            Delivery::Process { cuts, .. } => cuts.len() as u64,
            Delivery::ReadFrom { script } => script.len() as u64,
            Delivery::FromFile { .. } => 1,
        });
        stats.inc(&format!("pipeline_{}", c.pipeline));
        if c.decoder_kind != 0 {
            stats.inc("decoder_from_explicit_encoding_rs_decoder");
        }
        stats.set_insert("encodings_exercised", fnv1a(c.encoding.as_bytes()));
        // a multi-byte UTF-8 sequence split by a cut?
        if let Delivery::Process { cuts, .. } = &c.delivery {
            for &k in cuts {
                if k > 0 && k < c.bytes.len() && c.bytes[k] & 0xC0 == 0x80 && c.bytes[k - 1] >= 0x80 {
                    stats.inc("probe_cut_inside_multibyte_sequence");
                    break;
                }
            }
        }
        match run(&c, stats) {
            Ok(d) => (CaseInfo { key, nontrivial, digest: d }, Ok(())),
            Err(v) => (CaseInfo { key, nontrivial, digest: fnv1a(v.class.as_bytes()) }, Err(v)),
        }
    }
    fn minimise(&self, case: &Value, class: &str, budget: usize, _t: &[String]) -> Value {
        let c = parse(case);
        let mut fails = |x: &BCase| -> bool {
            let mut st = Stats::default();
            match std::panic::catch_unwind(std::panic::AssertUnwindSafe(|| run(x, &mut st))) {
                Ok(Err(v)) => v.class == class,
                Ok(Ok(_)) => false,
                Err(_) => class == "panic",
            }
        };
        emit(&greedy_min(c, &candidates, &mut fails, budget))
    }
    fn rule(&self) -> String {
        "case = (byte string generated for the target encoding: valid text spliced with every ill-formed UTF-8 class, lone lead bytes, ISO-2022-JP escapes, UTF-16 lone surrogates / odd lengths, BOMs whole and cut short, truncated tails; one case in 150 is 4..192 KiB of multi-byte characters; one of 40 encodings; pipeline {LossyDecoder/Utf8LossyDecoder + recording sink | html from_utf8() parser | xml from_utf8() parser}; delivery = process() chunks cut at arbitrary byte offsets (owned or shared-parent tendrils) or read_from(SimReader) with short reads, Interrupted and, in separate fault cases, one hard error, or from_file on a scratch file / a size-lying kernel pseudo-file; in one decoder case in eight the sink re-enters the decoders from inside a callback); non-trivial = non-empty input with at least one cut or a read_from delivery; distinct = distinct hash of the whole case".into()
    }
    fn components(&self) -> Value {
        json!({"real": ["tendril::stream::Utf8LossyDecoder", "tendril::stream::LossyDecoder (decode_to_sink)", "tendril::utf8_decode", "TendrilSink::read_from", "html5ever::driver::Parser::from_utf8", "xml5ever::driver::XmlParser::from_utf8", "html5ever / xml5ever parsers behind them"],
               "stub": ["SimReader (io::Read with short reads / EINTR / hard error)", "byte-chunk source", "recording TendrilSink", "ModelSink"],
               "trusted": ["encoding_rs itself (the one-shot reference decode uses it)", "std::str::Utf8Chunks as the definition of from_utf8_lossy"]})
    }
    fn assumptions(&self) -> Vec<String> {
        vec!["encoding_rs is trusted: the oracle compares tendril's chunked loop with a one-shot loop over the same decoder".into(), "seeded search: a clean batch is evidence, not proof".into()]
    }
    fn reports_panics(&self) -> bool {
        true
    }
    fn reports_crashes(&self) -> bool {
        false
    }
    fn expected_probes(&self) -> Vec<&'static str> {
        vec!["F8_byte_chunks_delivered", "F8_reads_interrupted", "F8_short_reads", "F8_hard_read_errors", "probe_cut_inside_multibyte_sequence", "probe_decoded_output_over_8192_bytes", "cases_with_ill_formed_input", "F12_from_file_runs", "F12_from_file_size_lying_pseudo_file", "F13_sink_reentered_the_decoders"]
    }
}
