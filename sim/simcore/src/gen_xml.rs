//! Grammar-weighted generator of (mostly malformed) XML for xml5ever.

use crate::gen_html::{gen_charref, long_run, mutate, near_count, near_threshold, SizeClass, ODD_CHARS};
use crate::rng::Rng;

const NAMES: &[&str] = &["a", "b", "root", "item", "script", "p:a", "q:b", "p:script", "x:y", "svg", "xml:z", "xmlns:a", ":a", "a:", "a:b:c", "é", "title"];
const ATTRS: &[&str] = &["id", "b", "xmlns", "xmlns:p", "xmlns:q", "xmlns:x", "p:id", "q:id", "x:b", "xml:lang", "xmlns:xml", "xmlns:xmlns", "c"];
const URIS: &[&str] = &["urn:a", "urn:b", "", "http://www.w3.org/XML/1998/namespace", "http://www.w3.org/2000/xmlns/", "http://www.w3.org/1999/xhtml", "u"];

fn ws(rng: &mut Rng, out: &mut String) {
    match rng.below(8) {
        0 => out.push('\n'),
        1 => out.push('\r'),
        2 => out.push_str("\r\n"),
        3 => out.push('\t'),
        _ => out.push(' '),
    }
}

fn text(rng: &mut Rng, out: &mut String) {
    for _ in 0..=rng.small(4) {
        match rng.below(14) {
            0 => out.push(*rng.pick(ODD_CHARS)),
            1 => gen_charref(rng, out),
            2 => ws(rng, out),
            3 => out.push('\0'),
            4 => out.push('\r'),
            5 => out.push_str("\r\n"),
            6 => {
                let n = if rng.chance(1, 6) { *rng.pick(&[63usize, 64, 65, 130]) } else { rng.range(14, 20) };
                for i in 0..n {
                    out.push((b'a' + (i % 26) as u8) as char);
                }
            },
            _ => {
                for _ in 0..rng.range(1, 4) {
                    out.push(*rng.pick(&['t', 'x', ' ', '1', 'é']));
                }
            },
        }
    }
}

fn attrs(rng: &mut Rng, out: &mut String) {
    let n = if rng.chance(1, 2) { 0 } else { rng.small(3) + 1 };
    for _ in 0..n {
        ws(rng, out);
        out.push_str(rng.pick_str(ATTRS));
        if rng.chance(1, 8) {
            continue;
        }
        if rng.chance(1, 5) {
            ws(rng, out);
        }
        out.push('=');
        if rng.chance(1, 5) {
            ws(rng, out);
        }
        let q = match rng.below(5) {
            0 | 1 => Some('"'),
            2 => Some('\''),
            _ => None,
        };
        if let Some(q) = q {
            out.push(q);
        }
        match rng.below(8) {
            0..=3 => out.push_str(rng.pick_str(URIS)),
            4 => gen_charref(rng, out),
            5 => {
                let c = *rng.pick(&['\r', '\0', '\n', '\t', 'v', '<', '&']);
                if q.is_some() || !matches!(c, '\n' | '\t' | '\r') {
                    out.push(c);
                }
                out.push('y');
            },
            6 => {
                out.push_str("x\ry\0z");
            },
            _ => out.push('v'),
        }
        if let Some(q) = q {
            if rng.chance(19, 20) {
                out.push(q);
            }
        }
    }
    if rng.chance(1, 4) {
        ws(rng, out);
    }
}

fn node(rng: &mut Rng, out: &mut String, depth: usize) {
    match rng.below(22) {
        0..=7 => {
            let name = rng.pick_str(NAMES);
            out.push('<');
            out.push_str(name);
            attrs(rng, out);
            if rng.chance(1, 4) {
                out.push_str("/>");
                return;
            }
            if rng.chance(29, 30) {
                out.push('>');
            }
            if depth > 0 {
                for _ in 0..rng.small(3) {
                    node(rng, out, depth - 1);
                }
            }
            match rng.below(6) {
                0 => out.push_str("</>"),
                1 => {},
                _ => {
                    out.push_str("</");
                    out.push_str(name);
                    if rng.chance(1, 6) {
                        ws(rng, out);
                    }
                    if rng.chance(1, 12) {
                        attrs(rng, out);
                    }
                    out.push('>');
                },
            }
        },
        8 | 9 => {
            out.push_str("</");
            out.push_str(rng.pick_str(NAMES));
            out.push('>');
        },
        10..=13 => text(rng, out),
        14 => {
            out.push_str("<!--");
            for _ in 0..rng.small(3) {
                out.push_str(rng.pick_str(&["-", "--", "c", "<!", "<!--", "\r", "\0", "--!", " "]));
            }
            out.push_str(rng.pick_str(&["-->", "-->", "--!>", "->", ""]));
        },
        15 => {
            out.push_str("<?");
            out.push_str(rng.pick_str(&["xml", "pi", "", " ", "x\r"]));
            if rng.chance(2, 3) {
                ws(rng, out);
                out.push_str(rng.pick_str(&["version=\"1.0\"", "d?d", "\r\n", "\0", "?"]));
            }
            out.push_str(rng.pick_str(&["?>", "?>", "??>", ">", ""]));
        },
        16 => {
            out.push_str(rng.pick_str(&["<![CDATA[", "<![CDATA[", "<![cdata[", "<![CDAT"]));
            for _ in 0..rng.small(3) {
                out.push_str(rng.pick_str(&["]", "]]", "d", "\r", "\0", "\r\n", "&amp;", "<"]));
            }
            out.push_str(rng.pick_str(&["]]>", "]]>", "]]]>", "]>", ""]));
        },
        17 => {
            out.push_str("<!");
            out.push_str(rng.pick_str(&["DOCTYPE", "doctype", "DOCTYP", "DocType"]));
            if rng.chance(9, 10) {
                ws(rng, out);
            }
            out.push_str(rng.pick_str(&["a", "root", "html", ""]));
            if rng.chance(1, 2) {
                ws(rng, out);
                out.push_str(rng.pick_str(&["PUBLIC", "public", "SYSTEM", "system", "PUBLI", "x"]));
                if rng.chance(4, 5) {
                    ws(rng, out);
                }
                let q = *rng.pick(&['"', '\'']);
                out.push(q);
                out.push_str(rng.pick_str(&["x", "-//W3C//DTD", "a\rb", ""]));
                out.push(q);
                if rng.chance(1, 2) {
                    ws(rng, out);
                    out.push(q);
                    out.push_str("sys");
                    out.push(q);
                }
            }
            if rng.chance(9, 10) {
                out.push('>');
            }
        },
        18 => out.push_str("</>"),
        19 => {
            out.push_str(rng.pick_str(&["<script/>", "<script>s</script>", "<script/", "<p:script xmlns:p='u'/>", "<script", "</script>"]));
        },
        _ => out.push(*rng.pick(ODD_CHARS)),
    }
}

pub fn gen_xml(rng: &mut Rng, size: SizeClass) -> String {
    let (budget, depth) = match size {
        SizeClass::Small => (64, 2),
        SizeClass::Medium => (400, 4),
        SizeClass::Large => (3000, 6),
        SizeClass::Huge => (40000, 8),
    };
    let mut out = String::new();
    if rng.chance(1, 12) {
        out.push('\u{feff}');
    }
    if rng.chance(1, 8) {
        out.push_str("<?xml version=\"1.0\"?>");
    }
    let target = 1 + rng.below(budget);
    let mut guard = 0;
    while out.len() < target && guard < 20000 {
        node(rng, &mut out, depth);
        guard += 1;
    }
    let mut s = if rng.chance(1, 2) { mutate(rng, &out) } else { out };
    if s.chars().count() > budget {
        s = s.chars().take(budget).collect();
    }
    s
}

/// XML inputs that probe size thresholds: long runs in every kind of token, many siblings,
/// attributes and namespace declarations, deep nesting.
pub fn gen_xml_scale(rng: &mut Rng) -> String {
    let mut out = String::new();
    if rng.chance(1, 8) {
        out.push_str("<?xml version=\"1.0\"?>");
    }
    match rng.below(6) {
        0 | 1 => {
            let (pre, post) = *rng.pick(&[
                ("<doc>", "</doc>"), ("<doc>", ""), ("", ""), ("<a b=\"", "\"/>"), ("<a b='", "'>t</a>"), ("<!--", "-->"), ("<![CDATA[", "]]>"),
                ("<?pi ", "?>"), ("<p:a xmlns:p='", "'/>"), ("<doc><script>", "</script>x</doc>"), ("<!DOCTYPE ", ">"), ("<doc>&", ";</doc>"),
            ]);
            out.push_str(pre);
            let mut n = near_threshold(rng);
            if rng.chance(1, 3) {
                n += rng.below(n / 2 + 1);
            }
            long_run(rng, n, &mut out);
            out.push_str(post);
            out.push_str(rng.pick_str(&["", "<b/>tail", "\r\n", "</doc>"]));
        },
        2 => {
            out.push_str("<root>");
            let item = rng.pick_str(&["<i/>", "<!--c-->", "<script/>", "t<b/>", "<?p d?>", "<p:i xmlns:p='u'/>", "<i></i>", "<![CDATA[c]]>"]);
            for _ in 0..near_count(rng) {
                out.push_str(item);
            }
            out.push_str(rng.pick_str(&["</root>", "", "</>", "<x>"]));
        },
        3 => {
            let tag = rng.pick_str(&["<a>", "<p:a xmlns:p='u'>", "<a xmlns='d'>", "<script>", "<a b='c'>"]);
            for _ in 0..near_count(rng).min(130) {
                out.push_str(tag);
            }
            out.push_str(rng.pick_str(&["t", "<script/>", "</a>", "</>"]));
            for _ in 0..rng.small(4) {
                out.push_str(rng.pick_str(&["</a>", "</p:a>", "</>", "x", "</script>"]));
            }
        },
        4 => {
            out.push_str("<e");
            let n = near_count(rng).min(257);
            for i in 0..n {
                match rng.below(6) {
                    0 => out.push_str(&format!(" xmlns:p{}='u{}'", i, i % 3)),
                    1 => out.push_str(&format!(" p{}:a='v'", i / 2)),
                    _ => out.push_str(&format!(" a{}='{}'", if rng.chance(1, 40) { 0 } else { i }, i % 10)),
                }
            }
            out.push_str(rng.pick_str(&["/>", ">t</e>", ">"]));
        },
        _ => {
            node(rng, &mut out, 3);
            let n = near_threshold(rng);
            long_run(rng, n, &mut out);
            node(rng, &mut out, 3);
        },
    }
    out
}
