//! The XML stream world: xml5ever's tokenizer and tree builder under simulated delivery.

use std::cell::{Cell, RefCell};
use std::rc::Rc;

use markup5ever::buffer_queue::BufferQueue;
use markup5ever::TokenizerResult;
use serde_json::{json, Value};
use xml5ever::tokenizer::{ProcessResult, Token, TokenSink, XmlTokenizer, XmlTokenizerOpts};
use xml5ever::tree_builder::{XmlTreeBuilder, XmlTreeBuilderOpts};

use crate::html_stream::{drive, CollectTracer, Driven, FeedRes, PauseObs, RunStats};
use crate::model::{Id, ModelSink, SinkPolicy, H};
use crate::probe::Probe;
use crate::rng::{fnv1a, mix};
use crate::schedule::Schedule;

#[derive(Clone, Debug, PartialEq, Eq)]
pub struct XOpts {
    pub exact_errors: bool,
    pub discard_bom: bool,
    pub profile: bool,
}

impl Default for XOpts {
    fn default() -> XOpts {
        XOpts { exact_errors: false, discard_bom: true, profile: false }
    }
}

impl XOpts {
    pub fn to_json(&self) -> Value {
        json!({"exact_errors": self.exact_errors, "discard_bom": self.discard_bom, "profile": self.profile})
    }
    pub fn from_json(v: &Value) -> XOpts {
        XOpts {
            exact_errors: v["exact_errors"].as_bool().unwrap_or(false),
            discard_bom: v["discard_bom"].as_bool().unwrap_or(true),
            profile: v["profile"].as_bool().unwrap_or(false),
        }
    }
    fn tok(&self) -> XmlTokenizerOpts {
        XmlTokenizerOpts { exact_errors: self.exact_errors, discard_bom: self.discard_bom, profile: self.profile, initial_state: None }
    }
}

#[derive(Clone, Debug, PartialEq, Eq)]
pub enum XTokEv {
    Doctype { name: Option<String>, public_id: Option<String>, system_id: Option<String> },
    Tag { kind: u8, prefix: Option<String>, local: String, attrs: Vec<(Option<String>, String, String)> },
    Pi { target: String, data: String },
    Comment(String),
    Chars(String),
    Null,
    Eof,
    Error(String),
}

impl XTokEv {
    fn from_token(t: &Token) -> XTokEv {
        use xml5ever::tokenizer::TagKind::*;
        match t {
            Token::Doctype(d) => XTokEv::Doctype {
                name: d.name.as_ref().map(|s| s.to_string()),
                public_id: d.public_id.as_ref().map(|s| s.to_string()),
                system_id: d.system_id.as_ref().map(|s| s.to_string()),
            },
            Token::Tag(t) => XTokEv::Tag {
                kind: match t.kind {
                    StartTag => 0,
                    EndTag => 1,
                    EmptyTag => 2,
                    ShortTag => 3,
                },
                prefix: t.name.prefix.as_ref().map(|p| p.to_string()),
                local: t.name.local.to_string(),
                attrs: t
                    .attrs
                    .iter()
                    .map(|a| (a.name.prefix.as_ref().map(|p| p.to_string()), a.name.local.to_string(), a.value.to_string()))
                    .collect(),
            },
            Token::ProcessingInstruction(p) => XTokEv::Pi { target: p.target.to_string(), data: p.data.to_string() },
            Token::Comment(c) => XTokEv::Comment(c.to_string()),
            Token::Characters(c) => XTokEv::Chars(c.to_string()),
            Token::NullCharacter => XTokEv::Null,
            Token::EndOfFile => XTokEv::Eof,
            Token::ParseError(e) => XTokEv::Error(e.to_string()),
        }
    }
}

pub struct XRec<S: TokenSink> {
    pub inner: S,
    pub recs: RefCell<Vec<XTokEv>>,
    pub eof_count: Cell<u64>,
    pub after_eof: Cell<u64>,
    pub end_calls: Cell<u64>,
}

impl<S: TokenSink> XRec<S> {
    fn new(inner: S) -> XRec<S> {
        XRec { inner, recs: RefCell::new(vec![]), eof_count: Cell::new(0), after_eof: Cell::new(0), end_calls: Cell::new(0) }
    }
}

impl<S: TokenSink> TokenSink for XRec<S> {
    type Handle = S::Handle;
    fn process_token(&self, token: Token) -> ProcessResult<S::Handle> {
        let ev = XTokEv::from_token(&token);
        if self.eof_count.get() > 0 {
            self.after_eof.set(self.after_eof.get() + 1);
        }
        if ev == XTokEv::Eof {
            self.eof_count.set(self.eof_count.get() + 1);
        }
        self.recs.borrow_mut().push(ev);
        self.inner.process_token(token)
    }
    fn end(&self) {
        self.end_calls.set(self.end_calls.get() + 1);
        self.inner.end()
    }
}

/// Answers depend on the token history only; `Script` only on tags.
pub struct XPolicySink {
    pub policy: u64,
    pub n_tags: Cell<u64>,
}

impl TokenSink for XPolicySink {
    type Handle = u64;
    fn process_token(&self, token: Token) -> ProcessResult<u64> {
        if let Token::Tag(t) = &token {
            let ord = self.n_tags.get();
            self.n_tags.set(ord + 1);
            if self.policy == 0 {
                if &*t.name.local == "script" && !matches!(t.kind, xml5ever::tokenizer::TagKind::StartTag) {
                    return ProcessResult::Script(ord);
                }
            } else if mix(self.policy, mix(ord, fnv1a(t.name.local.as_bytes()))) % 5 == 0 {
                return ProcessResult::Script(ord);
            }
        }
        ProcessResult::Continue
    }
}

#[derive(Clone, Debug, PartialEq, Eq)]
pub enum XPipeline {
    Tok { policy: u64 },
    Tree,
    /// xml5ever::driver with RcDom as sink, then drop (totality only)
    RcDom,
    /// xml5ever::driver (XmlParser + TendrilSink::process / finish) with the model sink
    Driver,
}

#[derive(Clone, Debug, PartialEq, Eq)]
pub struct XmlCase {
    pub input: String,
    pub opts: XOpts,
    pub pipeline: XPipeline,
    pub schedule: Schedule,
}

impl XmlCase {
    pub fn to_json(&self) -> Value {
        let p = match &self.pipeline {
            XPipeline::Tok { policy } => json!({"kind": "tok", "policy": policy.to_string()}),
            XPipeline::Tree => json!({"kind": "tree"}),
            XPipeline::RcDom => json!({"kind": "rcdom"}),
            XPipeline::Driver => json!({"kind": "driver"}),
        };
        json!({"world": "xml-stream", "input": self.input, "opts": self.opts.to_json(), "pipeline": p, "schedule": self.schedule.to_json()})
    }
    pub fn from_json(v: &Value) -> XmlCase {
        let pipeline = if v["pipeline"]["kind"].as_str() == Some("tok") {
            XPipeline::Tok { policy: v["pipeline"]["policy"].as_str().and_then(|s| s.parse().ok()).unwrap_or(0) }
        } else if v["pipeline"]["kind"].as_str() == Some("driver") {
            XPipeline::Driver
        } else if v["pipeline"]["kind"].as_str() == Some("rcdom") {
            XPipeline::RcDom
        } else {
            XPipeline::Tree
        };
        XmlCase {
            input: v["input"].as_str().unwrap_or("").to_string(),
            opts: XOpts::from_json(&v["opts"]),
            pipeline,
            schedule: Schedule::from_json(&v["schedule"]),
        }
    }
}

pub struct XRunObs {
    pub toks: Vec<XTokEv>,
    pub pauses: Vec<PauseObs>,
    pub feed_results: Vec<FeedRes>,
    pub queue_nonempty_after_done: Option<String>,
    pub eof_count: u64,
    pub after_eof: u64,
    pub end_calls: u64,
    pub logical: String,
    pub stats: RunStats,
    pub sink: Option<ModelSink>,
    pub digest: u64,
    pub is_driver: bool,
}

struct XTokDriven {
    tok: XmlTokenizer<XRec<XPolicySink>>,
}

impl Driven for XTokDriven {
    fn feed(&self, q: &BufferQueue) -> (FeedRes, Option<Id>) {
        match self.tok.feed(q) {
            TokenizerResult::Done => (FeedRes::Done, None),
            TokenizerResult::Script(h) => (FeedRes::Script, Some(h as Id)),
            TokenizerResult::EncodingIndicator(l) => (FeedRes::Indicator(l.to_string()), None),
        }
    }
    fn end(&self) {
        self.tok.end()
    }
    fn collect(&self, _extra: &[Id]) -> usize {
        0
    }
}

struct XTreeDriven {
    tok: XmlTokenizer<XRec<XmlTreeBuilder<H, ModelSink>>>,
}

impl Driven for XTreeDriven {
    fn feed(&self, q: &BufferQueue) -> (FeedRes, Option<Id>) {
        match self.tok.feed(q) {
            TokenizerResult::Done => (FeedRes::Done, None),
            TokenizerResult::Script(h) => (FeedRes::Script, Some(h.0)),
            TokenizerResult::EncodingIndicator(l) => (FeedRes::Indicator(l.to_string()), None),
        }
    }
    fn end(&self) {
        self.tok.end()
    }
    fn collect(&self, extra: &[Id]) -> usize {
        let tracer = CollectTracer { roots: RefCell::new(extra.to_vec()) };
        self.tok.sink.inner.trace_handles(&tracer);
        let roots = tracer.roots.into_inner();
        self.tok.sink.inner.sink.collect(&roots)
    }
    fn script_remove(&self, selector: u32) -> bool {
        self.tok.sink.inner.sink.script_remove(selector)
    }
}

pub fn run_xml(case: &XmlCase, record_calls: bool) -> XRunObs {
    let probe = Rc::new(Probe::new());
    match &case.pipeline {
        XPipeline::Tok { policy } => {
            let rec = XRec::new(XPolicySink { policy: *policy, n_tags: Cell::new(0) });
            let d = XTokDriven { tok: XmlTokenizer::new(rec, case.opts.tok()) };
            let (pauses, feed_results, qne, stats) = {
                let recs = &d.tok.sink.recs;
                let nc = || recs.borrow().iter().filter(|r| !matches!(r, XTokEv::Chars(_) | XTokEv::Error(_))).count();
                drive(&d, &probe, &case.input, &case.schedule, &nc)
            };
            let s = d.tok.sink;
            finish(s.recs.into_inner(), pauses, feed_results, qne, s.eof_count.get(), s.after_eof.get(), s.end_calls.get(), &probe, stats, None)
        },
        XPipeline::Driver => {
            use tendril::stream::TendrilSink;
            let policy = SinkPolicy { attach_ok: false, allow_shadow: true, record_calls, emulate_never_mirror: false };
            let opts = xml5ever::driver::XmlParseOpts { tokenizer: case.opts.tok(), tree_builder: Default::default() };
            let mut parser = xml5ever::driver::parse_document(ModelSink::new(policy, None, true), opts);
            let (chunks, _keep) = crate::schedule::make_chunks(&case.input, &case.schedule);
            let mut stats = RunStats::default();
            for ch in chunks {
                stats.chunks += 1;
                stats.events += 1;
                parser.process(ch);
            }
            let model = parser.finish();
            let mut o = finish(vec![], vec![], vec![], None, 1, 0, 1, &probe, stats, Some(model));
            o.is_driver = true;
            o
        },
        XPipeline::RcDom => {
            use tendril::stream::TendrilSink;
            let opts = xml5ever::driver::XmlParseOpts { tokenizer: case.opts.tok(), tree_builder: Default::default() };
            let mut parser = xml5ever::driver::parse_document(markup5ever_rcdom::RcDom::default(), opts);
            let (chunks, _keep) = crate::schedule::make_chunks(&case.input, &case.schedule);
            let mut stats = RunStats::default();
            for ch in chunks {
                stats.chunks += 1;
                stats.events += 1;
                parser.process(ch);
            }
            let dom = parser.finish();
            let n = dom.document.children.borrow().len() as u64;
            drop(dom);
            let mut o = finish(vec![], vec![], vec![], None, 1, 0, 1, &probe, stats, None);
            o.digest = n;
            o.is_driver = true;
            o
        },
        XPipeline::Tree => {
            let policy = SinkPolicy { attach_ok: false, allow_shadow: true, record_calls, emulate_never_mirror: false };
            let sink = ModelSink::new(policy, None, true);
            let tb = XmlTreeBuilder::new(sink, XmlTreeBuilderOpts::default());
            let rec = XRec::new(tb);
            let d = XTreeDriven { tok: XmlTokenizer::new(rec, case.opts.tok()) };
            let (pauses, feed_results, qne, stats) = {
                let recs = &d.tok.sink.recs;
                let nc = || recs.borrow().iter().filter(|r| !matches!(r, XTokEv::Chars(_) | XTokEv::Error(_))).count();
                drive(&d, &probe, &case.input, &case.schedule, &nc)
            };
            let s = d.tok.sink;
            let model = s.inner.sink;
            finish(s.recs.into_inner(), pauses, feed_results, qne, s.eof_count.get(), s.after_eof.get(), s.end_calls.get(), &probe, stats, Some(model))
        },
    }
}

#[allow(clippy::too_many_arguments)]
fn finish(
    toks: Vec<XTokEv>,
    pauses: Vec<PauseObs>,
    feed_results: Vec<FeedRes>,
    qne: Option<String>,
    eof_count: u64,
    after_eof: u64,
    end_calls: u64,
    probe: &Rc<Probe>,
    stats: RunStats,
    sink: Option<ModelSink>,
) -> XRunObs {
    let mut dg = 0u64;
    for t in &toks {
        dg = mix(dg, fnv1a(format!("{:?}", t).as_bytes()));
    }
    for f in &feed_results {
        dg = mix(dg, fnv1a(format!("{:?}", f).as_bytes()));
    }
    if let Some(s) = &sink {
        dg = mix(dg, s.digest.get());
    }
    XRunObs {
        toks,
        pauses,
        feed_results,
        queue_nonempty_after_done: qne,
        eof_count,
        after_eof,
        end_calls,
        logical: probe.logical_string(),
        stats,
        sink,
        digest: dg,
        is_driver: false,
    }
}

/// Token normal form without errors: adjacent character tokens merged.
pub fn xnormal(toks: &[XTokEv]) -> Vec<XTokEv> {
    let mut out: Vec<XTokEv> = vec![];
    for t in toks {
        match t {
            XTokEv::Error(_) => {},
            XTokEv::Chars(s) => {
                if s.is_empty() {
                    continue;
                }
                if let Some(XTokEv::Chars(p)) = out.last_mut() {
                    p.push_str(s);
                } else {
                    out.push(t.clone());
                }
            },
            other => out.push(other.clone()),
        }
    }
    out
}

/// CRLF / CR -> LF and NUL -> U+FFFD.
pub fn prenormalise(s: &str) -> String {
    let mut out = String::with_capacity(s.len());
    let mut prev_cr = false;
    for c in s.chars() {
        match c {
            '\r' => {
                out.push('\n');
                prev_cr = true;
                continue;
            },
            '\n' => {
                if !prev_cr {
                    out.push('\n');
                }
            },
            '\0' => out.push('\u{fffd}'),
            c => out.push(c),
        }
        prev_cr = false;
    }
    out
}
