//! The HTML stream world: the real `Tokenizer` (and `TreeBuilder`) driven by
//! a simulated source / embedder / script / collector through the public
//! push-parser protocol.

use std::cell::{Cell, RefCell};
use std::rc::Rc;

use html5ever::tokenizer::states::{self, State};
use html5ever::tokenizer::{
    Tag, TagKind, Token, TokenSink, TokenSinkResult, Tokenizer, TokenizerOpts,
};
use html5ever::tree_builder::{TreeBuilder, TreeBuilderOpts};
use markup5ever::interface::tree_builder::{create_element, QuirksMode, Tracer, TreeSink};
use markup5ever::{LocalName, Namespace, QualName, TokenizerResult};
use serde_json::{json, Value};
use tendril::StrTendril;

use crate::model::{Dom, Id, Kind, ModelSink, SinkPolicy, H};
use crate::probe::Probe;
use crate::rng::{fnv1a, mix};
use crate::schedule::{make_chunks, Schedule};

// ---------------------------------------------------------------- options

#[derive(Clone, Debug, PartialEq, Eq)]
pub struct Opts {
    pub exact_errors: bool,
    pub discard_bom: bool,
    pub profile: bool,
    pub tb_exact_errors: bool,
    pub scripting: bool,
    pub iframe_srcdoc: bool,
    pub drop_doctype: bool,
    pub quirks: u8,
}

impl Default for Opts {
    fn default() -> Opts {
        Opts {
            exact_errors: false,
            discard_bom: true,
            profile: false,
            tb_exact_errors: false,
            scripting: true,
            iframe_srcdoc: false,
            drop_doctype: false,
            quirks: 2,
        }
    }
}

impl Opts {
    pub fn to_json(&self) -> Value {
        json!({"exact_errors": self.exact_errors, "discard_bom": self.discard_bom, "profile": self.profile,
               "tb_exact_errors": self.tb_exact_errors, "scripting": self.scripting,
               "iframe_srcdoc": self.iframe_srcdoc, "drop_doctype": self.drop_doctype, "quirks": self.quirks})
    }
    pub fn from_json(v: &Value) -> Opts {
        let b = |k: &str, d: bool| v[k].as_bool().unwrap_or(d);
        Opts {
            exact_errors: b("exact_errors", false),
            discard_bom: b("discard_bom", true),
            profile: b("profile", false),
            tb_exact_errors: b("tb_exact_errors", false),
            scripting: b("scripting", true),
            iframe_srcdoc: b("iframe_srcdoc", false),
            drop_doctype: b("drop_doctype", false),
            quirks: v["quirks"].as_u64().unwrap_or(2) as u8,
        }
    }
    pub fn tok_opts(&self) -> TokenizerOpts {
        TokenizerOpts {
            exact_errors: self.exact_errors,
            discard_bom: self.discard_bom,
            profile: self.profile,
            initial_state: None,
            last_start_tag_name: None,
        }
    }
    pub fn tb_opts(&self) -> TreeBuilderOpts {
        TreeBuilderOpts {
            exact_errors: self.tb_exact_errors,
            scripting_enabled: self.scripting,
            iframe_srcdoc: self.iframe_srcdoc,
            drop_doctype: self.drop_doctype,
            quirks_mode: match self.quirks {
                0 => QuirksMode::Quirks,
                1 => QuirksMode::LimitedQuirks,
                _ => QuirksMode::NoQuirks,
            },
        }
    }
}

pub const START_STATES_SANE: &[&str] = &[
    "Data",
    "Plaintext",
    "Rcdata",
    "Rawtext",
    "ScriptData",
    "ScriptDataEscaped",
    "ScriptDataDoubleEscaped",
    "CdataSection",
];

pub fn all_state_names() -> Vec<&'static str> {
    vec![
        "Data", "Plaintext", "Rcdata", "Rawtext", "ScriptData", "ScriptDataEscaped",
        "ScriptDataDoubleEscaped", "CdataSection", "TagOpen", "EndTagOpen", "TagName",
        "RawLessThanSign(Rcdata)", "RawLessThanSign(ScriptData)", "RawLessThanSign(Escaped)",
        "RawLessThanSign(DoubleEscaped)", "RawEndTagOpen(Rcdata)", "RawEndTagName(Rawtext)",
        "ScriptDataEscapeStart(Escaped)", "ScriptDataEscapeStart(DoubleEscaped)",
        "ScriptDataEscapeStartDash", "ScriptDataEscapedDash(Escaped)",
        "ScriptDataEscapedDashDash(DoubleEscaped)", "ScriptDataDoubleEscapeEnd",
        "BeforeAttributeName", "AttributeName", "AfterAttributeName", "BeforeAttributeValue",
        "AttributeValue(Unquoted)", "AttributeValue(SingleQuoted)", "AttributeValue(DoubleQuoted)",
        "AfterAttributeValueQuoted", "SelfClosingStartTag", "BogusComment", "MarkupDeclarationOpen",
        "CommentStart", "CommentStartDash", "Comment", "CommentLessThanSign",
        "CommentLessThanSignBang", "CommentLessThanSignBangDash", "CommentLessThanSignBangDashDash",
        "CommentEndDash", "CommentEnd", "CommentEndBang", "Doctype", "BeforeDoctypeName",
        "DoctypeName", "AfterDoctypeName", "AfterDoctypeKeyword(Public)",
        "AfterDoctypeKeyword(System)", "BeforeDoctypeIdentifier(Public)",
        "DoctypeIdentifierDoubleQuoted(Public)", "DoctypeIdentifierSingleQuoted(System)",
        "AfterDoctypeIdentifier(Public)", "AfterDoctypeIdentifier(System)",
        "BetweenDoctypePublicAndSystemIdentifiers", "BogusDoctype", "CdataSectionBracket",
        "CdataSectionEnd",
    ]
}

pub fn state_from_name(s: &str) -> Option<State> {
    use states::AttrValueKind::*;
    use states::DoctypeIdKind::*;
    use states::RawKind::*;
    use states::ScriptEscapeKind::*;
    Some(match s {
        "Data" => State::Data,
        "Plaintext" => State::Plaintext,
        "Rcdata" => State::RawData(Rcdata),
        "Rawtext" => State::RawData(Rawtext),
        "ScriptData" => State::RawData(ScriptData),
        "ScriptDataEscaped" => State::RawData(ScriptDataEscaped(Escaped)),
        "ScriptDataDoubleEscaped" => State::RawData(ScriptDataEscaped(DoubleEscaped)),
        "CdataSection" => State::CdataSection,
        "TagOpen" => State::TagOpen,
        "EndTagOpen" => State::EndTagOpen,
        "TagName" => State::TagName,
        "RawLessThanSign(Rcdata)" => State::RawLessThanSign(Rcdata),
        "RawLessThanSign(ScriptData)" => State::RawLessThanSign(ScriptData),
        "RawLessThanSign(Escaped)" => State::RawLessThanSign(ScriptDataEscaped(Escaped)),
        "RawLessThanSign(DoubleEscaped)" => State::RawLessThanSign(ScriptDataEscaped(DoubleEscaped)),
        "RawEndTagOpen(Rcdata)" => State::RawEndTagOpen(Rcdata),
        "RawEndTagName(Rawtext)" => State::RawEndTagName(Rawtext),
        "ScriptDataEscapeStart(Escaped)" => State::ScriptDataEscapeStart(Escaped),
        "ScriptDataEscapeStart(DoubleEscaped)" => State::ScriptDataEscapeStart(DoubleEscaped),
        "ScriptDataEscapeStartDash" => State::ScriptDataEscapeStartDash,
        "ScriptDataEscapedDash(Escaped)" => State::ScriptDataEscapedDash(Escaped),
        "ScriptDataEscapedDashDash(DoubleEscaped)" => State::ScriptDataEscapedDashDash(DoubleEscaped),
        "ScriptDataDoubleEscapeEnd" => State::ScriptDataDoubleEscapeEnd,
        "BeforeAttributeName" => State::BeforeAttributeName,
        "AttributeName" => State::AttributeName,
        "AfterAttributeName" => State::AfterAttributeName,
        "BeforeAttributeValue" => State::BeforeAttributeValue,
        "AttributeValue(Unquoted)" => State::AttributeValue(Unquoted),
        "AttributeValue(SingleQuoted)" => State::AttributeValue(SingleQuoted),
        "AttributeValue(DoubleQuoted)" => State::AttributeValue(DoubleQuoted),
        "AfterAttributeValueQuoted" => State::AfterAttributeValueQuoted,
        "SelfClosingStartTag" => State::SelfClosingStartTag,
        "BogusComment" => State::BogusComment,
        "MarkupDeclarationOpen" => State::MarkupDeclarationOpen,
        "CommentStart" => State::CommentStart,
        "CommentStartDash" => State::CommentStartDash,
        "Comment" => State::Comment,
        "CommentLessThanSign" => State::CommentLessThanSign,
        "CommentLessThanSignBang" => State::CommentLessThanSignBang,
        "CommentLessThanSignBangDash" => State::CommentLessThanSignBangDash,
        "CommentLessThanSignBangDashDash" => State::CommentLessThanSignBangDashDash,
        "CommentEndDash" => State::CommentEndDash,
        "CommentEnd" => State::CommentEnd,
        "CommentEndBang" => State::CommentEndBang,
        "Doctype" => State::Doctype,
        "BeforeDoctypeName" => State::BeforeDoctypeName,
        "DoctypeName" => State::DoctypeName,
        "AfterDoctypeName" => State::AfterDoctypeName,
        "AfterDoctypeKeyword(Public)" => State::AfterDoctypeKeyword(Public),
        "AfterDoctypeKeyword(System)" => State::AfterDoctypeKeyword(System),
        "BeforeDoctypeIdentifier(Public)" => State::BeforeDoctypeIdentifier(Public),
        "DoctypeIdentifierDoubleQuoted(Public)" => State::DoctypeIdentifierDoubleQuoted(Public),
        "DoctypeIdentifierSingleQuoted(System)" => State::DoctypeIdentifierSingleQuoted(System),
        "AfterDoctypeIdentifier(Public)" => State::AfterDoctypeIdentifier(Public),
        "AfterDoctypeIdentifier(System)" => State::AfterDoctypeIdentifier(System),
        "BetweenDoctypePublicAndSystemIdentifiers" => State::BetweenDoctypePublicAndSystemIdentifiers,
        "BogusDoctype" => State::BogusDoctype,
        "CdataSectionBracket" => State::CdataSectionBracket,
        "CdataSectionEnd" => State::CdataSectionEnd,
        _ => return None,
    })
}

// ---------------------------------------------------------------- token records

#[derive(Clone, Debug, PartialEq, Eq)]
pub enum TokEv {
    Doctype { name: Option<String>, public_id: Option<String>, system_id: Option<String>, force_quirks: bool },
    Tag { start: bool, name: String, self_closing: bool, attrs: Vec<(String, String)>, dup: bool },
    Comment(String),
    Chars(String),
    Null,
    Eof,
    Error(String),
}

impl TokEv {
    pub fn is_chars(&self) -> bool {
        matches!(self, TokEv::Chars(_))
    }
    pub fn is_error(&self) -> bool {
        matches!(self, TokEv::Error(_))
    }
    pub fn from_token(t: &Token) -> TokEv {
        match t {
            Token::DoctypeToken(d) => TokEv::Doctype {
                name: d.name.as_ref().map(|s| s.to_string()),
                public_id: d.public_id.as_ref().map(|s| s.to_string()),
                system_id: d.system_id.as_ref().map(|s| s.to_string()),
                force_quirks: d.force_quirks,
            },
            Token::TagToken(t) => TokEv::Tag {
                start: t.kind == TagKind::StartTag,
                name: t.name.to_string(),
                self_closing: t.self_closing,
                attrs: t.attrs.iter().map(|a| (a.name.local.to_string(), a.value.to_string())).collect(),
                dup: t.had_duplicate_attributes,
            },
            Token::CommentToken(c) => TokEv::Comment(c.to_string()),
            Token::CharacterTokens(c) => TokEv::Chars(c.to_string()),
            Token::NullCharacterToken => TokEv::Null,
            Token::EOFToken => TokEv::Eof,
            Token::ParseError(e) => TokEv::Error(e.to_string()),
        }
    }
}

pub const ANS_CONTINUE: u8 = 0;
pub const ANS_SCRIPT: u8 = 1;
pub const ANS_PLAINTEXT: u8 = 2;
pub const ANS_RAWDATA: u8 = 3;
pub const ANS_INDICATOR: u8 = 4;

#[derive(Clone, Debug)]
pub struct TokRec {
    pub ev: TokEv,
    pub line: u64,
    /// chars of the logical stream consumed when the token was emitted
    pub consumed: usize,
    pub in_end: bool,
    pub answer: u8,
    /// sink mutation counter before / after the token was processed (P-tree)
    pub mut_before: u64,
    pub mut_after: u64,
    /// index range of recorded sink calls made while this token was processed
    pub calls_before: u64,
    pub calls_after: u64,
}

/// Recording wrapper around any `TokenSink` (a policy sink or the real tree builder).
pub struct Rec<S: TokenSink> {
    pub inner: S,
    pub probe: Rc<Probe>,
    pub recs: RefCell<Vec<TokRec>>,
    pub after_eof: Cell<u64>,
    pub eof_count: Cell<u64>,
    pub end_calls: Cell<u64>,
    pub mutation_counter: Option<Rc<Cell<u64>>>,
    pub calls_counter: Option<Rc<Cell<u64>>>,
    pub forwarded_line_mismatch: RefCell<Option<String>>,
    pub last_line_fn: Option<Rc<Cell<u64>>>,
    pub keep_text: bool,
}

impl<S: TokenSink> TokenSink for Rec<S> {
    type Handle = S::Handle;

    fn process_token(&self, token: Token, line_number: u64) -> TokenSinkResult<S::Handle> {
        let ev = TokEv::from_token(&token);
        if self.eof_count.get() > 0 {
            self.after_eof.set(self.after_eof.get() + 1);
        }
        if ev == TokEv::Eof {
            self.eof_count.set(self.eof_count.get() + 1);
        }
        let consumed = if self.probe.enabled.get() { self.probe.consumed() } else { 0 };
        let mut_before = self.mutation_counter.as_ref().map(|f| f.get()).unwrap_or(0);
        let calls_before = self.calls_counter.as_ref().map(|f| f.get()).unwrap_or(0);
        let r = self.inner.process_token(token, line_number);
        let calls_after = self.calls_counter.as_ref().map(|f| f.get()).unwrap_or(0);
        let mut_after = self.mutation_counter.as_ref().map(|f| f.get()).unwrap_or(0);
        if let Some(f) = &self.last_line_fn {
            // set_current_line forwarding: whenever the line differs from the
            // initial 1 the sink must have been told exactly this number
            let told = f.get();
            if line_number != 1 && told != line_number && self.forwarded_line_mismatch.borrow().is_none() {
                *self.forwarded_line_mismatch.borrow_mut() = Some(format!(
                    "token {:?} carried line {} but the sink was last told line {}",
                    ev, line_number, told
                ));
            }
        }
        let answer = match &r {
            TokenSinkResult::Continue => ANS_CONTINUE,
            TokenSinkResult::Script(_) => ANS_SCRIPT,
            TokenSinkResult::Plaintext => ANS_PLAINTEXT,
            TokenSinkResult::RawData(_) => ANS_RAWDATA,
            TokenSinkResult::EncodingIndicator(_) => ANS_INDICATOR,
        };
        self.recs.borrow_mut().push(TokRec {
            ev,
            line: line_number,
            consumed,
            in_end: self.probe.in_end.get(),
            answer,
            mut_before,
            mut_after,
            calls_before,
            calls_after,
        });
        r
    }

    fn end(&self) {
        self.end_calls.set(self.end_calls.get() + 1);
        self.inner.end()
    }

    fn adjusted_current_node_present_but_not_in_html_namespace(&self) -> bool {
        self.inner.adjusted_current_node_present_but_not_in_html_namespace()
    }
}

pub const SUPPRESS_BIT: u64 = 1 << 63;

/// Token sink whose answers are a function of the token history only.
pub struct PolicySink {
    pub policy: u64,
    pub n_tags: Cell<u64>,
    pub n_nonchar: Cell<u64>,
}

impl PolicySink {
    pub fn new(policy: u64) -> PolicySink {
        PolicySink { policy, n_tags: Cell::new(0), n_nonchar: Cell::new(0) }
    }
}

impl TokenSink for PolicySink {
    type Handle = u64;

    fn process_token(&self, token: Token, _line: u64) -> TokenSinkResult<u64> {
        use states::RawKind::*;
        match &token {
            Token::CharacterTokens(_) | Token::NullCharacterToken | Token::ParseError(_) => {
                return TokenSinkResult::Continue
            },
            _ => {},
        }
        self.n_nonchar.set(self.n_nonchar.get() + 1);
        let tag: &Tag = match &token {
            Token::TagToken(t) => t,
            _ => return TokenSinkResult::Continue,
        };
        let ord = self.n_tags.get();
        self.n_tags.set(ord + 1);
        if self.policy & !SUPPRESS_BIT == 0 {
            // mimic the tree builder's raw-text switching (ignoring namespaces)
            if tag.kind == TagKind::StartTag {
                return match &*tag.name {
                    "title" | "textarea" => TokenSinkResult::RawData(Rcdata),
                    "style" | "xmp" | "iframe" | "noembed" | "noframes" => TokenSinkResult::RawData(Rawtext),
                    "script" => TokenSinkResult::RawData(ScriptData),
                    "plaintext" => TokenSinkResult::Plaintext,
                    _ => TokenSinkResult::Continue,
                };
            } else if &*tag.name == "script" {
                return TokenSinkResult::Script(ord);
            }
            return TokenSinkResult::Continue;
        }
        let suppress = self.policy & SUPPRESS_BIT != 0;
        let h = mix(self.policy & !SUPPRESS_BIT, mix(ord, fnv1a(tag.name.as_bytes())));
        if tag.kind == TagKind::StartTag {
            match h % 20 {
                0 | 1 => TokenSinkResult::RawData(Rcdata),
                2 | 3 => TokenSinkResult::RawData(Rawtext),
                4 | 5 => TokenSinkResult::RawData(ScriptData),
                6 => TokenSinkResult::Plaintext,
                7 | 8 if !suppress => TokenSinkResult::EncodingIndicator(StrTendril::from_slice("x-policy")),
                9 => TokenSinkResult::Script(ord),
                _ => TokenSinkResult::Continue,
            }
        } else {
            match h % 4 {
                0 => TokenSinkResult::Script(ord),
                _ => TokenSinkResult::Continue,
            }
        }
    }

    fn adjusted_current_node_present_but_not_in_html_namespace(&self) -> bool {
        if self.policy & !SUPPRESS_BIT == 0 {
            false
        } else {
            mix((self.policy & !SUPPRESS_BIT) ^ 0xF00D, self.n_nonchar.get()) & 1 == 1
        }
    }
}

// ---------------------------------------------------------------- case

#[derive(Clone, Debug, PartialEq, Eq)]
pub enum Pipeline {
    /// Tokenizer<Rec<PolicySink>>
    Tok { policy: u64, initial_state: Option<String>, last_start_tag: Option<String> },
    /// html5ever::driver with the repository's own RcDom as sink, then serialize and drop (totality only)
    RcDom { context: Option<(String, String)>, ctx_scripting: bool },
    /// Tokenizer<Rec<TreeBuilder<H, ModelSink>>>
    Tree {
        context: Option<(String, String)>,
        ctx_scripting: bool,
        attach_ok: bool,
        allow_shadow: bool,
        /// go through html5ever::driver (Parser + TendrilSink::process / finish): pauses are hidden
        driver: bool,
        /// fragment parsing with a form element pointer supplied by the embedder
        with_form: bool,
        /// how the embedder uses the `Parser` when `driver` is set: 0 = `process()` per chunk, then
        /// `finish()`; 1 = every chunk queued by hand on `parser.input_buffer`, nothing fed, then
        /// `finish()`; 2 = per chunk: queue it and call `parser.tokenizer.feed()` ONCE (it stops at
        /// the first suspension and leaves the rest queued), then `finish()`
        driver_mode: u8,
    },
}

#[derive(Clone, Debug, PartialEq, Eq)]
pub struct HtmlCase {
    pub input: String,
    pub opts: Opts,
    pub pipeline: Pipeline,
    pub schedule: Schedule,
}

impl HtmlCase {
    pub fn to_json(&self) -> Value {
        let pipeline = match &self.pipeline {
            Pipeline::Tok { policy, initial_state, last_start_tag } => json!({
                "kind": "tok", "policy": policy.to_string(), "initial_state": initial_state, "last_start_tag": last_start_tag }),
            Pipeline::RcDom { context, ctx_scripting } => json!({
                "kind": "rcdom",
                "context": context.as_ref().map(|(n, l)| json!({"ns": n, "local": l})),
                "ctx_scripting": ctx_scripting }),
            Pipeline::Tree { context, ctx_scripting, attach_ok, allow_shadow, driver, with_form, driver_mode } => json!({
                "kind": "tree",
                "context": context.as_ref().map(|(n, l)| json!({"ns": n, "local": l})),
                "ctx_scripting": ctx_scripting, "attach_ok": attach_ok, "allow_shadow": allow_shadow,
                "driver": driver, "with_form": with_form, "driver_mode": driver_mode }),
        };
        json!({"input": self.input, "opts": self.opts.to_json(), "pipeline": pipeline, "schedule": self.schedule.to_json()})
    }

    pub fn from_json(v: &Value) -> HtmlCase {
        let p = &v["pipeline"];
        let pipeline = if p["kind"].as_str() == Some("tok") {
            Pipeline::Tok {
                policy: p["policy"].as_str().and_then(|s| s.parse().ok()).unwrap_or(0),
                initial_state: p["initial_state"].as_str().map(|s| s.to_string()),
                last_start_tag: p["last_start_tag"].as_str().map(|s| s.to_string()),
            }
        } else if p["kind"].as_str() == Some("rcdom") {
            Pipeline::RcDom {
                context: if p["context"].is_object() {
                    Some((
                        p["context"]["ns"].as_str().unwrap_or("html").to_string(),
                        p["context"]["local"].as_str().unwrap_or("div").to_string(),
                    ))
                } else {
                    None
                },
                ctx_scripting: p["ctx_scripting"].as_bool().unwrap_or(true),
            }
        } else {
            Pipeline::Tree {
                context: if p["context"].is_object() {
                    Some((
                        p["context"]["ns"].as_str().unwrap_or("html").to_string(),
                        p["context"]["local"].as_str().unwrap_or("div").to_string(),
                    ))
                } else {
                    None
                },
                ctx_scripting: p["ctx_scripting"].as_bool().unwrap_or(true),
                attach_ok: p["attach_ok"].as_bool().unwrap_or(false),
                allow_shadow: p["allow_shadow"].as_bool().unwrap_or(true),
                driver: p["driver"].as_bool().unwrap_or(false),
                with_form: p["with_form"].as_bool().unwrap_or(false),
                driver_mode: p["driver_mode"].as_u64().unwrap_or(0) as u8,
            }
        };
        HtmlCase {
            input: v["input"].as_str().unwrap_or("").to_string(),
            opts: Opts::from_json(&v["opts"]),
            pipeline,
            schedule: Schedule::from_json(&v["schedule"]),
        }
    }
}

// ---------------------------------------------------------------- run observation

#[derive(Clone, Debug, PartialEq, Eq)]
pub enum FeedRes {
    Done,
    Script,
    Indicator(String),
}

#[derive(Clone, Debug)]
pub struct PauseObs {
    pub kind: FeedRes,
    /// consumption offset, in coordinates of the logical stream at that moment
    pub consumed: usize,
    pub char_before: Option<char>,
    /// number of non-character, non-error tokens emitted before the pause
    pub nonchar_before: usize,
    /// script handle (P-tree: model node id)
    pub handle: Option<Id>,
    pub injected: bool,
}

#[derive(Default, Clone, Debug)]
pub struct RunStats {
    pub events: u64,
    pub feeds: u64,
    pub chunks: u64,
    pub empty_chunks: u64,
    pub pauses_script: u64,
    pub pauses_indicator: u64,
    pub injections: u64,
    pub delivered_while_suspended: u64,
    pub collections: u64,
    pub collected_nodes: u64,
    pub truncated: u64,
    pub end_at_pause: u64,
    pub livelock: u64,
    pub script_removals: u64,
    pub hand_driven_parser: u64,
    pub fresh_queues: u64,
}

pub struct RunObs {
    pub toks: Vec<TokRec>,
    pub pauses: Vec<PauseObs>,
    pub feed_results: Vec<FeedRes>,
    pub queue_nonempty_after_done: Option<String>,
    pub eof_count: u64,
    pub after_eof: u64,
    pub end_calls: u64,
    pub logical: String,
    pub stats: RunStats,
    pub sink: Option<ModelSink>,
    pub forwarded_line_mismatch: Option<String>,
    pub digest: u64,
    pub is_driver: bool,
    /// RcDom pipeline only: the finished RcDom tree, copied into the model's arena
    pub rc_tree: Option<Dom>,
}

/// Copy an RcDom tree into the model arena (iteratively).  The copy is purely structural: a
/// node's parent is the node whose child list holds it (whether RcDom's own parent pointers agree,
/// and whether a node is shared between two places, is C20's business, not the skeleton's).
pub fn dom_from_rcdom(doc: &markup5ever_rcdom::Handle) -> Dom {
    use markup5ever_rcdom::NodeData;
    let mut dom = Dom { nodes: vec![], quirks: None };
    // (rc node, template element it is the contents of, parent in the copy)
    let mut stack: Vec<(markup5ever_rcdom::Handle, Option<Id>, Option<Id>)> = vec![(doc.clone(), None, None)];
    while let Some((h, host, parent)) = stack.pop() {
        let kind = match &h.data {
            NodeData::Document => {
                if dom.nodes.is_empty() {
                    Kind::Document
                } else {
                    Kind::Fragment
                }
            },
            NodeData::Doctype { name, public_id, system_id } => Kind::Doctype { name: name.to_string(), public_id: public_id.to_string(), system_id: system_id.to_string() },
            NodeData::Text { contents } => Kind::Text(contents.borrow().to_string()),
            NodeData::Comment { contents } => Kind::Comment(contents.to_string()),
            NodeData::ProcessingInstruction { target, contents } => Kind::Pi { target: target.to_string(), data: contents.to_string() },
            NodeData::Element { name, attrs, template_contents, mathml_annotation_xml_integration_point } => Kind::Element {
                prefix: name.prefix.as_ref().map(|p| p.to_string()),
                ns: name.ns.clone(),
                local: name.local.clone(),
                attrs: attrs.borrow().iter().map(crate::model::attr_to_m).collect(),
                template: template_contents.borrow().is_some(),
                mathml_ip: *mathml_annotation_xml_integration_point,
                dup_attrs: false,
            },
        };
        let id = dom.new_node(kind);
        if let Some(t) = host {
            dom.nm(t).template_contents = Some(id);
            dom.nm(id).host = Some(t);
        }
        if let Some(p) = parent {
            dom.nm(p).children.push(id);
            dom.nm(id).parent = Some(p);
        }
        if let NodeData::Element { template_contents, .. } = &h.data {
            if let Some(tc) = template_contents.borrow().as_ref() {
                stack.push((tc.clone(), Some(id), None));
            }
        }
        for c in h.children.borrow().iter().rev() {
            stack.push((c.clone(), None, Some(id)));
        }
    }
    dom
}

pub struct CollectTracer {
    pub roots: RefCell<Vec<Id>>,
}

impl Tracer for CollectTracer {
    type Handle = H;
    fn trace_handle(&self, node: &H) {
        self.roots.borrow_mut().push(node.0);
    }
}

fn ns_from(s: &str) -> Namespace {
    match s {
        "html" => markup5ever::ns!(html),
        "svg" => markup5ever::ns!(svg),
        "mathml" => markup5ever::ns!(mathml),
        other => Namespace::from(other),
    }
}

/// Abstract driver interface so that the event loop is written once.
pub trait Driven {
    fn feed(&self, q: &markup5ever::buffer_queue::BufferQueue) -> (FeedRes, Option<Id>);
    fn end(&self);
    fn collect(&self, extra_roots: &[Id]) -> usize;
    /// the script detaches one attached element chosen by `selector`; false if nothing was removed
    fn script_remove(&self, _selector: u32) -> bool {
        false
    }
}

struct TokDriven {
    tok: Tokenizer<Rec<PolicySink>>,
}

impl Driven for TokDriven {
    fn feed(&self, q: &markup5ever::buffer_queue::BufferQueue) -> (FeedRes, Option<Id>) {
        match self.tok.feed(q) {
            TokenizerResult::Done => (FeedRes::Done, None),
            TokenizerResult::Script(h) => (FeedRes::Script, Some(h as Id)),
            TokenizerResult::EncodingIndicator(l) => (FeedRes::Indicator(l.to_string()), None),
        }
    }
    fn end(&self) {
        self.tok.end()
    }
    fn collect(&self, _extra: &[Id]) -> usize {
        0
    }
}

struct TreeDriven {
    tok: Tokenizer<Rec<TreeBuilder<H, ModelSink>>>,
}

impl Driven for TreeDriven {
    fn feed(&self, q: &markup5ever::buffer_queue::BufferQueue) -> (FeedRes, Option<Id>) {
        match self.tok.feed(q) {
            TokenizerResult::Done => (FeedRes::Done, None),
            TokenizerResult::Script(h) => (FeedRes::Script, Some(h.0)),
            TokenizerResult::EncodingIndicator(l) => (FeedRes::Indicator(l.to_string()), None),
        }
    }
    fn end(&self) {
        self.tok.end()
    }
    fn collect(&self, extra: &[Id]) -> usize {
        let tracer = CollectTracer { roots: RefCell::new(extra.to_vec()) };
        self.tok.sink.inner.trace_handles(&tracer);
        let roots = tracer.roots.into_inner();
        self.tok.sink.inner.sink.collect(&roots)
    }
    fn script_remove(&self, selector: u32) -> bool {
        self.tok.sink.inner.sink.script_remove(selector)
    }
}

pub fn drive<D: Driven>(
    d: &D,
    probe: &Rc<Probe>,
    input: &str,
    sched: &Schedule,
    nonchar_count: &dyn Fn() -> usize,
) -> (Vec<PauseObs>, Vec<FeedRes>, Option<String>, RunStats) {
    let (chunks, _keep_parent) = make_chunks(input, sched);
    let mut stats = RunStats::default();
    if sched.truncate_at.is_some() {
        stats.truncated = 1;
    }
    let mut pauses: Vec<PauseObs> = vec![];
    let mut feed_results: Vec<FeedRes> = vec![];
    let mut queue_nonempty: Option<String> = None;
    let mut next_chunk = 0usize;
    let mut suspension = 0usize;
    let mut pause_ord = 0usize;
    let mut ended_early = false;
    let max_feeds = 4 * (chunks.len() + input.len() + 64);

    let mut deliver = |next_chunk: &mut usize, stats: &mut RunStats| -> bool {
        if *next_chunk >= chunks.len() {
            return false;
        }
        let t = chunks[*next_chunk].clone();
        *next_chunk += 1;
        stats.chunks += 1;
        stats.events += 1;
        if t.is_empty() {
            stats.empty_chunks += 1;
        }
        probe.push_back(t);
        true
    };

    'outer: while deliver(&mut next_chunk, &mut stats) {
        loop {
            stats.feeds += 1;
            stats.events += 1;
            if stats.feeds as usize > max_feeds {
                // feed() keeps reporting suspensions without consuming input
                stats.livelock = 1;
                break 'outer;
            }
            let (res, handle) = d.feed(&probe.queue);
            feed_results.push(res.clone());
            // ---- a suspension point.  At a script pause the script runs first (it may edit
            // the DOM and write to the input); the collection, if scheduled, comes after it.
            let do_collect = sched.collect_at.contains(&suspension);
            suspension += 1;
            let collect_now = |stats: &mut RunStats, handle: Option<Id>| {
                let mut held: Vec<Id> = vec![];
                if let Some(h) = handle {
                    held.push(h);
                }
                let freed = d.collect(&held);
                stats.collections += 1;
                stats.collected_nodes += freed as u64;
                stats.events += 1;
            };
            match res {
                FeedRes::Done => {
                    if do_collect {
                        collect_now(&mut stats, handle);
                    }
                    if !probe.queue.is_empty() && queue_nonempty.is_none() {
                        queue_nonempty = Some(probe.unread_text());
                    }
                    if sched.fresh_queue {
                        // F15: the next chunk comes in a queue of its own
                        while probe.queue.pop_front().is_some() {}
                        stats.fresh_queues += 1;
                    }
                    break;
                },
                FeedRes::Script | FeedRes::Indicator(_) => {
                    let is_script = res == FeedRes::Script;
                    if is_script {
                        stats.pauses_script += 1;
                    } else {
                        stats.pauses_indicator += 1;
                    }
                    let consumed = probe.consumed();
                    let mut injected = false;
                    let act = sched.pauses.iter().find(|p| p.at == pause_ord);
                    if sched.end_at_pause == Some(pause_ord) {
                        pauses.push(PauseObs {
                            kind: res.clone(),
                            consumed,
                            char_before: probe.char_before(consumed),
                            nonchar_before: nonchar_count(),
                            handle,
                            injected,
                        });
                        stats.end_at_pause += 1;
                        ended_early = true;
                        if do_collect {
                            collect_now(&mut stats, handle);
                        }
                        break 'outer;
                    }
                    if let Some(act) = act {
                        for _ in 0..act.deliver_before_resume {
                            if deliver(&mut next_chunk, &mut stats) {
                                stats.delivered_while_suspended += 1;
                            }
                        }
                        if is_script {
                            for sel in &act.remove {
                                if d.script_remove(*sel) {
                                    stats.script_removals += 1;
                                    stats.events += 1;
                                }
                            }
                            if let Some(w) = &act.inject {
                                probe.inject_front(StrTendril::from_slice(w));
                                stats.injections += 1;
                                stats.events += 1;
                                injected = true;
                            }
                        }
                    }
                    if do_collect {
                        collect_now(&mut stats, handle);
                    }
                    pauses.push(PauseObs {
                        kind: res.clone(),
                        consumed,
                        char_before: probe.char_before(consumed),
                        nonchar_before: nonchar_count(),
                        handle,
                        injected,
                    });
                    pause_ord += 1;
                    // resume
                },
            }
        }
    }
    let _ = ended_early;
    stats.events += 1;
    probe.in_end.set(true);
    d.end();
    (pauses, feed_results, queue_nonempty, stats)
}

thread_local! {
    /// Per-token consumption measurement (pops every buffer of the queue and pushes it back): only
    /// C09 needs it, and it must stay off elsewhere — a measurement that touches the queue at every
    /// token would reset any state a BufferQueue keeps between two calls and so hide what depends on it.
    pub static PROBE_TOKENS: Cell<bool> = const { Cell::new(false) };
    /// set by checks that want to look at the RcDom tree of an RcDom-pipeline run
    pub static KEEP_RC_TREE: Cell<bool> = const { Cell::new(false) };
}

pub fn run_html(case: &HtmlCase, record_calls: bool, emulate_never_mirror: bool) -> RunObs {
    let probe = Rc::new(Probe::new());
    probe.enabled.set(PROBE_TOKENS.with(|p| p.get()));
    match &case.pipeline {
        Pipeline::Tok { policy, initial_state, last_start_tag } => {
            let mut topts = case.opts.tok_opts();
            topts.initial_state = initial_state.as_deref().and_then(state_from_name);
            topts.last_start_tag_name = last_start_tag.clone();
            let rec = Rec {
                inner: PolicySink::new(*policy),
                probe: probe.clone(),
                recs: RefCell::new(vec![]),
                after_eof: Cell::new(0),
                eof_count: Cell::new(0),
                end_calls: Cell::new(0),
                mutation_counter: None,
                calls_counter: None,
                forwarded_line_mismatch: RefCell::new(None),
                last_line_fn: None,
                keep_text: true,
            };
            let d = TokDriven { tok: Tokenizer::new(rec, topts) };
            let (pauses, feed_results, qne, stats) = {
                let recs = &d.tok.sink.recs;
                let nc = || recs.borrow().iter().filter(|r| !r.ev.is_chars() && !r.ev.is_error() && r.ev != TokEv::Null).count();
                drive(&d, &probe, &case.input, &case.schedule, &nc)
            };
            let sink = d.tok.sink;
            finish_obs(sink.recs.into_inner(), pauses, feed_results, qne, sink.eof_count.get(), sink.after_eof.get(), sink.end_calls.get(), &probe, stats, None, None)
        },
        Pipeline::RcDom { context, ctx_scripting } => {
            use markup5ever_rcdom::{RcDom, SerializableHandle};
            use tendril::stream::TendrilSink;
            let opts = html5ever::driver::ParseOpts { tokenizer: case.opts.tok_opts(), tree_builder: case.opts.tb_opts() };
            let mut parser = match context {
                None => html5ever::driver::parse_document(RcDom::default(), opts),
                Some((nsname, local)) => {
                    let name = QualName::new(None, ns_from(nsname), LocalName::from(&**local));
                    html5ever::driver::parse_fragment(RcDom::default(), opts, name, vec![], *ctx_scripting)
                },
            };
            let (chunks, _keep) = make_chunks(&case.input, &case.schedule);
            let mut stats = RunStats::default();
            let scripted = case.schedule.pauses.iter().any(|p| !p.remove.is_empty());
            // what the script took out of the document stays referenced by the script (`t = table;
            // t.remove()`): RcDom's parent links are weak, a node whose detached parent is dropped
            // cannot be used any more, and that is not what is being tested here
            let mut held: Vec<markup5ever_rcdom::Handle> = vec![];
            let mut pause_ord = 0usize;
            for ch in chunks {
                stats.chunks += 1;
                stats.events += 1;
                if !scripted {
                    parser.process(ch);
                    continue;
                }
                // F11 on the repository's own sink: the embedder drives the public fields of `Parser`
                // and at a script pause detaches one element of the RcDom tree
                parser.input_buffer.push_back(ch);
                let mut guard = 0usize;
                loop {
                    guard += 1;
                    if guard > 100_000 {
                        break;
                    }
                    match parser.tokenizer.feed(&parser.input_buffer) {
                        TokenizerResult::Done => break,
                        TokenizerResult::EncodingIndicator(_) => {
                            stats.pauses_indicator += 1;
                            pause_ord += 1;
                        },
                        TokenizerResult::Script(h) => {
                            stats.pauses_script += 1;
                            held.push(h);
                            if let Some(act) = case.schedule.pauses.iter().find(|p| p.at == pause_ord) {
                                for sel in &act.remove {
                                    let dom = &parser.tokenizer.sink.sink;
                                    let mut attached: Vec<markup5ever_rcdom::Handle> = vec![];
                                    let mut stack = vec![dom.document.clone()];
                                    while let Some(n) = stack.pop() {
                                        for c in n.children.borrow().iter().rev() {
                                            stack.push(c.clone());
                                        }
                                        if let markup5ever_rcdom::NodeData::Element { template_contents, .. } = &n.data {
                                            attached.push(n.clone());
                                            if let Some(t) = template_contents.borrow().as_ref() {
                                                stack.push(t.clone());
                                            }
                                        }
                                    }
                                    if attached.is_empty() {
                                        continue;
                                    }
                                    let special: Vec<markup5ever_rcdom::Handle> = attached
                                        .iter()
                                        .filter(|n| match &n.data {
                                            markup5ever_rcdom::NodeData::Element { name, .. } => {
                                                matches!(&*name.local, "head" | "form" | "template" | "table" | "select" | "html" | "body" | "tbody" | "tr" | "b" | "a" | "i" | "p" | "div" | "svg" | "math")
                                            },
                                            _ => false,
                                        })
                                        .cloned()
                                        .collect();
                                    let victim = if (*sel >> 16) & 1 == 1 && !special.is_empty() {
                                        special[*sel as usize % special.len()].clone()
                                    } else {
                                        attached[*sel as usize % attached.len()].clone()
                                    };
                                    markup5ever::interface::TreeSink::remove_from_parent(dom, &victim);
                                    held.push(victim);
                                    stats.script_removals += 1;
                                    stats.events += 1;
                                }
                            }
                            pause_ord += 1;
                        },
                    }
                }
            }
            let dom = parser.finish();
            drop(held);
            // visiting every node once in document order and dropping the tree must not recurse
            let mut out: Vec<u8> = Vec::new();
            let sh: SerializableHandle = dom.document.clone().into();
            let _ = html5ever::serialize::serialize(&mut out, &sh, Default::default());
            let dg = fnv1a(&out);
            drop(sh);
            let rc_tree = if KEEP_RC_TREE.with(|k| k.get()) { Some(dom_from_rcdom(&dom.document)) } else { None };
            drop(dom);
            let mut obs = finish_obs(vec![], vec![], vec![], None, 1, 0, 1, &probe, stats, None, None);
            obs.digest = dg;
            obs.is_driver = true;
            obs.rc_tree = rc_tree;
            obs
        },
        Pipeline::Tree { context, ctx_scripting, attach_ok, allow_shadow, driver, with_form, driver_mode } => {
            let policy = SinkPolicy {
                attach_ok: *attach_ok,
                allow_shadow: *allow_shadow,
                record_calls,
                emulate_never_mirror,
            };
            let sink = ModelSink::new(policy, Some(probe.clone()), false);
            if *driver {
                // the high-level driver: Parser + TendrilSink; suspensions are looped over inside
                use tendril::stream::TendrilSink;
                let opts = html5ever::driver::ParseOpts { tokenizer: case.opts.tok_opts(), tree_builder: case.opts.tb_opts() };
                let mut parser = match context {
                    None => html5ever::driver::parse_document(sink, opts),
                    Some((nsname, local)) => {
                        let name = QualName::new(None, ns_from(nsname), LocalName::from(&**local));
                        html5ever::driver::parse_fragment(sink, opts, name, vec![], *ctx_scripting)
                    },
                };
                let (chunks, _keep) = make_chunks(&case.input, &case.schedule);
                let mut stats = RunStats::default();
                let mut logical = String::new();
                // (a queue of hundreds of thousands of buffers makes every `peek` linear in a build
                // with debug assertions — BufferQueue re-checks "no empty buffer" there — so the
                // queue-everything mode is kept to schedules of at most 4096 chunks)
                let mode = if *driver_mode == 1 && chunks.len() > 4096 { 2 } else { *driver_mode };
                let driver_mode = &mode;
                for ch in chunks {
                    stats.chunks += 1;
                    stats.events += 1;
                    logical.push_str(&ch);
                    match *driver_mode {
                        1 => parser.input_buffer.push_back(ch),
                        2 => {
                            parser.input_buffer.push_back(ch);
                            let _ = parser.tokenizer.feed(&parser.input_buffer);
                        },
                        _ => parser.process(ch),
                    }
                }
                stats.events += 1;
                if *driver_mode != 0 {
                    stats.hand_driven_parser += 1;
                }
                let model = parser.finish();
                let mut obs = finish_obs(vec![], vec![], vec![], None, 1, 0, 1, &probe, stats, Some(model), None);
                obs.logical = logical;
                obs.is_driver = true;
                return obs;
            }
            let mutations = sink.mutations.clone();
            let last_line = sink.last_line.clone();
            let calls_len = sink.calls_len.clone();
            let mut topts = case.opts.tok_opts();
            let tb = match context {
                None => TreeBuilder::new(sink, case.opts.tb_opts()),
                Some((nsname, local)) => {
                    let name = QualName::new(None, ns_from(nsname), LocalName::from(&**local));
                    let ctx = create_element(&sink, name, vec![]);
                    let form = if *with_form && nsname == "html" && local == "form" {
                        // innerHTML on a form: the form owner handed to the fragment parser is the
                        // context element itself (its nearest form ancestor-or-self)
                        Some(ctx.clone())
                    } else if *with_form {
                        Some(create_element(&sink, QualName::new(None, markup5ever::ns!(html), LocalName::from("form")), vec![]))
                    } else {
                        None
                    };
                    let tb = TreeBuilder::new_for_fragment(sink, ctx, form, case.opts.tb_opts());
                    topts.initial_state = Some(tb.tokenizer_state_for_context_elem(*ctx_scripting));
                    tb
                },
            };
            let rec = Rec {
                inner: tb,
                probe: probe.clone(),
                recs: RefCell::new(vec![]),
                after_eof: Cell::new(0),
                eof_count: Cell::new(0),
                end_calls: Cell::new(0),
                mutation_counter: Some(mutations),
                calls_counter: Some(calls_len),
                forwarded_line_mismatch: RefCell::new(None),
                last_line_fn: Some(last_line),
                keep_text: true,
            };
            let mut d = TreeDriven { tok: Tokenizer::new(rec, topts) };
            // wire the counters (raw pointers are avoided: the sink lives inside the tokenizer,
            // so read through a shared Rc<Cell>)
            let _ = &mut d;
            let (pauses, feed_results, qne, stats) = {
                let recs = &d.tok.sink.recs;
                let nc = || recs.borrow().iter().filter(|r| !r.ev.is_chars() && !r.ev.is_error() && r.ev != TokEv::Null).count();
                drive(&d, &probe, &case.input, &case.schedule, &nc)
            };
            let rec = d.tok.sink;
            let flm = rec.forwarded_line_mismatch.into_inner();
            let model = rec.inner.sink;
            finish_obs(rec.recs.into_inner(), pauses, feed_results, qne, rec.eof_count.get(), rec.after_eof.get(), rec.end_calls.get(), &probe, stats, Some(model), flm)
        },
    }
}

#[allow(clippy::too_many_arguments)]
fn finish_obs(
    toks: Vec<TokRec>,
    pauses: Vec<PauseObs>,
    feed_results: Vec<FeedRes>,
    qne: Option<String>,
    eof_count: u64,
    after_eof: u64,
    end_calls: u64,
    probe: &Rc<Probe>,
    stats: RunStats,
    sink: Option<ModelSink>,
    flm: Option<String>,
) -> RunObs {
    let mut dg = 0u64;
    for t in &toks {
        dg = mix(dg, fnv1a(format!("{:?}|{}|{}", t.ev, t.line, t.answer).as_bytes()));
    }
    for p in &pauses {
        dg = mix(dg, fnv1a(format!("{:?}|{}", p.kind, p.consumed).as_bytes()));
    }
    for f in &feed_results {
        dg = mix(dg, fnv1a(format!("{:?}", f).as_bytes()));
    }
    if let Some(s) = &sink {
        dg = mix(dg, s.digest.get());
    }
    RunObs {
        toks,
        pauses,
        feed_results,
        queue_nonempty_after_done: qne,
        eof_count,
        after_eof,
        end_calls,
        logical: probe.logical_string(),
        stats,
        sink,
        forwarded_line_mismatch: flm,
        digest: dg,
        is_driver: false,
        rc_tree: None,
    }
}

// ---------------------------------------------------------------- normal forms

#[derive(Clone, Debug, PartialEq, Eq)]
pub struct NormTok {
    pub ev: TokEv,
    /// line for non-character tokens; None for merged character runs
    pub line: Option<u64>,
}

/// Token normal form: adjacent character tokens concatenated, empty ones
/// dropped, NUL kept on its own; errors go to a separate list keyed by a
/// split-independent position.
pub fn normal_tokens(toks: &[TokRec]) -> (Vec<NormTok>, Vec<(usize, usize, String)>) {
    let mut out: Vec<NormTok> = Vec::new();
    let mut errors = Vec::new();
    let mut nonchar = 0usize;
    let mut nchars = 0usize;
    for t in toks {
        match &t.ev {
            TokEv::Error(e) => errors.push((nonchar, nchars, e.clone())),
            TokEv::Chars(s) => {
                if s.is_empty() {
                    continue;
                }
                nchars += s.chars().count();
                if let Some(NormTok { ev: TokEv::Chars(prev), .. }) = out.last_mut() {
                    prev.push_str(s);
                } else {
                    out.push(NormTok { ev: TokEv::Chars(s.clone()), line: None });
                }
            },
            TokEv::Null => {
                nchars += 1;
                out.push(NormTok { ev: TokEv::Null, line: None });
            },
            other => {
                nonchar += 1;
                out.push(NormTok { ev: other.clone(), line: Some(t.line) });
            },
        }
    }
    (out, errors)
}
