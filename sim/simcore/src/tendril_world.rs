//! C11 (value semantics vs a Vec<u8> model) and the native part of C12 (allocation ledger)
//! over the seeded histories of `tendril_hist`.

use serde_json::{json, Value};
use tendril_hist::{fmt_name, gen_selected_scale, ledger, ops_from_text, ops_to_text, run_selected, Observer, Op, N_KINDS};

use crate::rng::{fnv1a, Rng};
use crate::world::{greedy_min, CaseInfo, Stats, Violation, World};

#[derive(Clone, Copy, PartialEq, Eq)]
pub enum TProp {
    C11,
    C12,
}

pub struct TendrilWorld {
    pub prop: TProp,
}

#[derive(Clone)]
struct TCase {
    fmt: u8,
    atomic: bool,
    ops: Vec<Op>,
}

fn parse(v: &Value) -> TCase {
    TCase {
        fmt: v["fmt"].as_u64().unwrap_or(0) as u8,
        atomic: v["atomic"].as_bool().unwrap_or(false),
        ops: ops_from_text(v["ops"].as_str().unwrap_or("")),
    }
}

fn emit(c: &TCase) -> Value {
    json!({"fmt": c.fmt, "fmt_name": fmt_name(c.fmt), "atomic": c.atomic, "ops": ops_to_text(&c.ops),
           "ops_legend": "one operation per line: kind slot b c hexdata; kinds are listed in tendril_hist::kind_name"})
}

/// Allocation-free observer (the ledger region must not see harness allocations that outlive it).
struct Triples {
    counts: [[[u32; 3]; 3]; N_KINDS as usize],
}

impl Observer for Triples {
    fn op_done(&mut self, kind: u8, before: u8, after: u8) {
        if (kind as usize) < N_KINDS as usize {
            self.counts[kind as usize][before as usize % 3][after as usize % 3] += 1;
        }
    }
}

fn flush_triples(t: &Triples, stats: &mut Stats) {
    let names = ["small", "large-owned", "shared"];
    for k in 0..N_KINDS as usize {
        for b in 0..3 {
            for a in 0..3 {
                let n = t.counts[k][b][a];
                if n > 0 {
                    stats.set_insert("op_x_repr_before_x_repr_after", (k * 9 + b * 3 + a) as u64);
                    stats.add(&format!("op_{}", tendril_hist::kind_name(k as u8)), n as u64);
                    if b != a {
                        stats.add(&format!("transition_{}_to_{}", names[b], names[a]), n as u64);
                    }
                }
            }
        }
    }
}

fn run_plain(c: &TCase, stats: &mut Stats) -> Result<u64, Violation> {
    let mut t = Triples { counts: [[[0; 3]; 3]; N_KINDS as usize] };
    let r = run_selected(c.fmt, c.atomic, &c.ops, &mut t);
    flush_triples(&t, stats);
    r.map_err(|f| Violation::new(&f.class, f.detail))
}

fn run_ledger_once(c: &TCase, t: &mut Triples) -> (Result<u64, Violation>, ledger::Report, bool) {
    // every other history runs with one mapping per block ending at a guard page: an out-of-bounds
    // read or an access after free then kills the worker (reported as a crash by the supervisor)
    let guard = (c.ops.len() + c.fmt as usize) % 2 == 1;
    ledger::set_guard_mode(guard);
    ledger::begin_region();
    let r = std::panic::catch_unwind(std::panic::AssertUnwindSafe(|| run_selected(c.fmt, c.atomic, &c.ops, t)));
    ledger::pause_region();
    // copy what we need with tracking off, then free the tracked originals
    let (res, panicked) = match &r {
        Ok(Ok(d)) => (Ok(*d), false),
        Ok(Err(f)) => (Err(Violation::new(&f.class, f.detail.clone())), false),
        Err(_) => (Ok(0), true),
    };
    drop(r);
    let rep = ledger::end_region();
    (res, rep, panicked)
}

fn run_ledger(c: &TCase, stats: &mut Stats) -> Result<u64, Violation> {
    // API-surface probe (outside the ledger region): two SendTendrils never alias one buffer
    tendril_hist::send_tendril_alias_probe().map_err(|f| Violation::new(&f.class, f.detail))?;
    let mut t = Triples { counts: [[[0; 3]; 3]; N_KINDS as usize] };
    let (res, rep, panicked) = run_ledger_once(c, &mut t);
    flush_triples(&t, stats);
    if !rep.installed {
        return Err(Violation::new("harness", "ledger allocator is not installed in this binary".into()));
    }
    stats.add("ledger_tracked_allocations", rep.allocs);
    stats.add("ledger_tracked_frees", rep.frees);
    stats.add("ledger_blocks_behind_a_guard_page", rep.guarded);
    if panicked {
        stats.inc("histories_that_panicked_other_property");
    }
    if let Some((class, detail)) = rep.first_error() {
        if class == "leak" {
            // lazily initialised runtime state allocates once per process: a genuine leak repeats
            let mut t2 = Triples { counts: [[[0; 3]; 3]; N_KINDS as usize] };
            let (_, rep2, _) = run_ledger_once(c, &mut t2);
            if rep2.leaked_blocks == 0 {
                stats.inc("ledger_one_off_runtime_allocation_ignored");
                return res.map(|d| d).or(Ok(0));
            }
        }
        return Err(Violation::new(&class, detail));
    }
    // value mismatches are C11's business; C12 only reports memory errors
    Ok(res.unwrap_or(0))
}

fn candidates(c: &TCase) -> Vec<TCase> {
    let mut out = vec![];
    let n = c.ops.len();
    let mut size = n / 2;
    while size >= 1 {
        let mut start = 0;
        while start < n {
            let end = (start + size).min(n);
            let mut ops = c.ops[..start].to_vec();
            ops.extend_from_slice(&c.ops[end..]);
            out.push(TCase { fmt: c.fmt, atomic: c.atomic, ops });
            start += size;
        }
        if size == 1 {
            break;
        }
        size /= 2;
    }
    for i in 0..n {
        let o = &c.ops[i];
        if o.data.len() > 1 {
            let mut ops = c.ops.clone();
            ops[i].data.truncate(o.data.len() / 2);
            out.push(TCase { fmt: c.fmt, atomic: c.atomic, ops });
            let mut ops = c.ops.clone();
            ops[i].data.pop();
            out.push(TCase { fmt: c.fmt, atomic: c.atomic, ops });
        }
        if o.b > 0 && o.b < 1_000_000 {
            let mut ops = c.ops.clone();
            ops[i].b = o.b / 2;
            out.push(TCase { fmt: c.fmt, atomic: c.atomic, ops });
            let mut ops = c.ops.clone();
            ops[i].b = o.b - 1;
            out.push(TCase { fmt: c.fmt, atomic: c.atomic, ops });
        }
        if o.c > 0 && o.c < 1_000_000 {
            let mut ops = c.ops.clone();
            ops[i].c = o.c / 2;
            out.push(TCase { fmt: c.fmt, atomic: c.atomic, ops });
        }
    }
    if c.atomic {
        out.push(TCase { fmt: c.fmt, atomic: false, ops: c.ops.clone() });
    }
    out
}

impl TendrilWorld {
    fn run(&self, c: &TCase, stats: &mut Stats) -> Result<u64, Violation> {
        match self.prop {
            TProp::C11 => run_plain(c, stats),
            TProp::C12 => run_ledger(c, stats),
        }
    }
}

impl World for TendrilWorld {
    fn property(&self) -> &'static str {
        match self.prop {
            TProp::C11 => "C11",
            TProp::C12 => "C12",
        }
    }
    fn world_name(&self) -> &'static str {
        match self.prop {
            TProp::C11 => "tendril-history",
            TProp::C12 => "tendril-history-ledger",
        }
    }
    fn gen(&self, rng: &mut Rng, thorough: bool) -> Value {
        // UTF8 and Bytes (what html5ever uses) get half of the cases
        let fmt = match rng.weighted(&[35, 20, 12, 10, 23]) {
            0 => 0u8,
            1 => 1,
            2 => 2,
            3 => 3,
            _ => 4,
        };
        let atomic = rng.chance(1, 2);
        let max_ops = if thorough { 120 } else { 60 };
        let mut hr = tendril_hist::rng::Rng::new(rng.next_u64());
        let ops = gen_selected_scale(fmt, &mut hr, max_ops);
        emit(&TCase { fmt, atomic, ops })
    }
    fn check(&self, case: &Value, stats: &mut Stats, _t: &[String]) -> (CaseInfo, Result<(), Violation>) {
        let c = parse(case);
        let key = fnv1a(format!("{}{}{}", c.fmt, c.atomic, ops_to_text(&c.ops)).as_bytes());
        let nontrivial = c.ops.len() >= 3;
        stats.add("events", c.ops.len() as u64);
        stats.inc(&format!("histories_{}_{}", fmt_name(c.fmt), if c.atomic { "Atomic" } else { "NonAtomic" }));
        match self.run(&c, stats) {
            Ok(d) => (CaseInfo { key, nontrivial, digest: d }, Ok(())),
            Err(v) => (CaseInfo { key, nontrivial, digest: fnv1a(v.class.as_bytes()) }, Err(v)),
        }
    }
    fn minimise(&self, case: &Value, class: &str, budget: usize, _t: &[String]) -> Value {
        let c = parse(case);
        let mut fails = |x: &TCase| -> bool {
            let mut st = Stats::default();
            match std::panic::catch_unwind(std::panic::AssertUnwindSafe(|| self.run(x, &mut st))) {
                Ok(Err(v)) => v.class == class,
                Ok(Ok(_)) => false,
                Err(_) => class == "panic",
            }
        };
        emit(&greedy_min(c, &candidates, &mut fails, budget))
    }
    fn shrink_candidates(&self, case: &Value) -> Vec<Value> {
        candidates(&parse(case)).iter().map(emit).collect()
    }
    fn rule(&self) -> String {
        let base = "history = seeded sequence of 4..120 operations from the whole safe Tendril API (32 operation kinds incl. read_to_tendril from a scripted reader and Extend/FromIterator with iterators whose size_hint is wrong) over a pool of 6 tendrils of one format (UTF8, Bytes, ASCII, Latin1, WTF8) and atomicity (NonAtomic, Atomic), lengths biased to 0,7,8,9,15,16,17,31-33,63-65 and occasional 100-600, one history in 150 around buffers of 4 KiB..3 MiB, offsets biased to the ends and to the far end of u32; non-trivial = at least 3 operations; distinct = distinct hash of (format, atomicity, operation list)";
        match self.prop {
            TProp::C11 => format!("{base}; after EVERY operation every live tendril is compared with its Vec<u8> model, checked operations must fail exactly when the model says so, and content must stay valid for the format"),
            TProp::C12 => format!("{base}; the history runs inside an allocation-ledger region (global allocator with live table, red zones, poison + quarantine): double free, free with a different layout, red-zone damage, write after free and blocks still live after all tendrils are dropped are violations"),
        }
    }
    fn components(&self) -> Value {
        json!({"real": ["tendril::Tendril (all formats, both atomicities)", "tendril::buf32::Buf32", "tendril::fmt validators", "tendril::futf", "std allocator underneath the ledger"],
               "stub": ["caller (operation history)", "Vec<u8> reference model with independent UTF-8 / WTF-8 validators", "ledger GlobalAlloc (C12)"]})
    }
    fn assumptions(&self) -> Vec<String> {
        vec![
            "lengths near 4 GiB are outside the search".into(),
            "single OS thread: interleavings of logical owners at operation granularity; real preemption is covered by the Miri part of C12".into(),
            "seeded search: a clean batch is evidence, not proof".into(),
        ]
    }
    fn reports_panics(&self) -> bool {
        self.prop == TProp::C11
    }
    fn reports_crashes(&self) -> bool {
        self.prop == TProp::C12
    }
    fn expected_probes(&self) -> Vec<&'static str> {
        let mut v = vec!["transition_small_to_large-owned", "transition_large-owned_to_shared", "transition_shared_to_large-owned", "op_push_tendril", "op_try_subtendril", "op_push_big", "op_read_to_tendril", "op_clone_from"];
        if self.prop == TProp::C12 {
            v.push("ledger_tracked_allocations");
        }
        v
    }
}
