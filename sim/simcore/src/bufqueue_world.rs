//! C13: BufferQueue vs a `VecDeque<String>` model, return value by return value.

use std::collections::VecDeque;

use markup5ever::buffer_queue::{BufferQueue, SetResult};
use markup5ever::SmallCharSet;
use serde_json::{json, Value};
use tendril::StrTendril;

use crate::rng::{fnv1a, mix, Rng};
use crate::world::{greedy_min, CaseInfo, Stats, Violation, World};

#[derive(Clone, Debug, PartialEq, Eq)]
pub enum QOp {
    PushBack { s: String, shared: bool },
    PushFront { s: String, shared: bool },
    Next,
    Peek,
    PopExcept { set: String },
    /// cmp: 0 = u8::eq, 1 = eq_ignore_ascii_case, 2.. = asymmetric comparison closures (see `cmp_fn`)
    Eat { pat: String, cmp: u8 },
    PopFront,
    /// peek_front_chunk_mut, pop `n` chars from the chunk, caller removes it when empty
    ChunkMut { n: usize },
    IsEmpty,
    /// push_front the run `pop_except_from` handed out last (or a clone of it): un-reading. The
    /// run is a zero-copy slice of a buffer that may still be in the queue
    Unread,
    /// marker, not an operation: measure the buffer partition at the end only (see `run_ops`)
    Quiet,
    /// swap_with a second queue
    Swap,
    /// replace_with a clone of the second queue
    ReplaceWithOther,
}

impl QOp {
    fn to_json(&self) -> Value {
        match self {
            QOp::PushBack { s, shared } => json!({"op": "push_back", "s": s, "shared": shared}),
            QOp::PushFront { s, shared } => json!({"op": "push_front", "s": s, "shared": shared}),
            QOp::Next => json!({"op": "next"}),
            QOp::Peek => json!({"op": "peek"}),
            QOp::PopExcept { set } => json!({"op": "pop_except_from", "set": set}),
            QOp::Eat { pat, cmp } => json!({"op": "eat", "pat": pat, "cmp": cmp, "cmp_name": CMP_NAMES[*cmp as usize % CMP_NAMES.len()]}),
            QOp::PopFront => json!({"op": "pop_front"}),
            QOp::ChunkMut { n } => json!({"op": "chunk_mut", "n": n}),
            QOp::IsEmpty => json!({"op": "is_empty"}),
            QOp::Unread => json!({"op": "unread_last_run"}),
            QOp::Quiet => json!({"op": "quiet"}),
            QOp::Swap => json!({"op": "swap_with"}),
            QOp::ReplaceWithOther => json!({"op": "replace_with"}),
        }
    }
    fn from_json(v: &Value) -> QOp {
        let s = |k: &str| v[k].as_str().unwrap_or("").to_string();
        match v["op"].as_str().unwrap_or("") {
            "push_back" => QOp::PushBack { s: s("s"), shared: v["shared"].as_bool().unwrap_or(false) },
            "push_front" => QOp::PushFront { s: s("s"), shared: v["shared"].as_bool().unwrap_or(false) },
            "next" => QOp::Next,
            "peek" => QOp::Peek,
            "pop_except_from" => QOp::PopExcept { set: s("set") },
            "eat" => QOp::Eat { pat: s("pat"), cmp: v["cmp"].as_u64().map(|c| c as u8).unwrap_or(v["ci"].as_bool().unwrap_or(false) as u8) },
            "pop_front" => QOp::PopFront,
            "chunk_mut" => QOp::ChunkMut { n: v["n"].as_u64().unwrap_or(0) as usize },
            "unread_last_run" => QOp::Unread,
            "quiet" => QOp::Quiet,
            "swap_with" => QOp::Swap,
            "replace_with" => QOp::ReplaceWithOther,
            _ => QOp::IsEmpty,
        }
    }
}

const ALPHA: &[char] = &['a', 'b', 'A', 'd', 'o', 'c', 't', 'y', 'p', 'e', '<', '&', '-', '\r', '\n', '\0', ' ', '"', '[', ']', 'é', '中', '😀', ';', '1', '=', '>', '?', '@', '\u{7f}', '\u{3f}', '\u{40}'];
const SETCHARS: &[char] = &['<', '&', '-', '\r', '\n', '\0', ' ', '"', ';', '1', '=', '>', '\t', '\'', '\u{3f}', '!', '#'];
const PATS: &[&str] = &["--", "doctype", "[CDATA[", "public", "system", "a", "ab", "DOCTYPE", "-", "<", "do"];

const CMP_NAMES: &[&str] = &["u8::eq", "u8::eq_ignore_ascii_case", "fold first argument only", "'?' as second argument matches anything", "'?' as first argument matches anything"];

/// The comparison closures handed to `eat`.  2..4 are asymmetric: the answer must still not depend
/// on how the text is split across buffers, whatever argument order the queue uses.
fn cmp_fn(cmp: u8) -> fn(&u8, &u8) -> bool {
    match cmp % 5 {
        0 => |a, b| a == b,
        1 => |a, b| a.eq_ignore_ascii_case(b),
        2 => |a, b| a.to_ascii_lowercase() == *b,
        // (a wildcard never matches half of a multi-byte character, under either argument order)
        3 => |a, b| (*b == b'?' && a.is_ascii()) || a == b,
        _ => |a, b| (*a == b'?' && b.is_ascii()) || a == b,
    }
}

/// Big buffers around the thresholds block-wise or capped scanning would use (4 KiB .. 128 KiB),
/// with a multi-byte character lying across the mark.
fn big_string(rng: &mut Rng) -> String {
    let k = *rng.pick(&[12u32, 13, 14, 15, 16, 16, 16, 17]);
    let target = ((1usize << k) as i64 + rng.range(0, 6) as i64 - 3) as usize;
    let filler = *rng.pick(&['x', 'x', 'q', 'é']);
    let mut s = String::with_capacity(target + 16);
    let lead = target.saturating_sub(rng.below(5));
    while s.len() + filler.len_utf8() <= lead {
        s.push(filler);
    }
    while s.len() < lead {
        s.push('y');
    }
    s.push(*rng.pick(&['😀', '😀', '中', 'é', 'z']));
    for _ in 0..rng.small(6) {
        s.push(*rng.pick(ALPHA));
    }
    if rng.chance(1, 2) {
        s.push(*rng.pick(SETCHARS));
    }
    s
}

fn rand_string(rng: &mut Rng, max: usize) -> String {
    if rng.chance(1, 400) {
        return big_string(rng);
    }
    if rng.chance(1, 12) {
        // a long buffer: runs of non-members that cross the 64 / 128 byte marks before the first
        // member (block-wise scanning code is only exercised by those)
        let run = *rng.pick(&[60usize, 63, 64, 65, 70, 100, 127, 128, 129, 200]);
        let filler = *rng.pick(&['x', 'é', 'q', '中']);
        let mut s = String::new();
        while s.len() < run {
            s.push(filler);
        }
        s.push(*rng.pick(SETCHARS));
        for _ in 0..rng.small(6) {
            s.push(*rng.pick(ALPHA));
        }
        return s;
    }
    let n = rng.small(max);
    (0..n).map(|_| *rng.pick(ALPHA)).collect()
}

pub struct QueueWorld;

struct Sim {
    q: BufferQueue,
    other: BufferQueue,
    m: VecDeque<String>,
    mo: VecDeque<String>,
    /// every string that the history pushes as "shared", concatenated in push order: the pushed
    /// tendrils are slices of this ONE allocation (appending to a parent after a slice was taken
    /// would copy it, and the slices would share nothing)
    parent: StrTendril,
    next_off: u32,
    last_run: Option<StrTendril>,
}

fn mk(sim: &mut Sim, s: &str, shared: bool) -> StrTendril {
    if shared && !s.is_empty() {
        let off = sim.next_off;
        sim.next_off += s.len() as u32;
        sim.parent.subtendril(off, s.len() as u32)
    } else {
        StrTendril::from_slice(s)
    }
}

fn snapshot(q: &BufferQueue) -> Vec<String> {
    let mut bufs = vec![];
    let mut out = vec![];
    while let Some(b) = q.pop_front() {
        out.push(b.to_string());
        bufs.push(b);
    }
    while let Some(b) = bufs.pop() {
        q.push_front(b);
    }
    out
}

fn model_next(m: &mut VecDeque<String>) -> Option<char> {
    let front = m.front_mut()?;
    let c = front.chars().next().unwrap();
    front.drain(..c.len_utf8());
    if front.is_empty() {
        m.pop_front();
    }
    Some(c)
}

/// A history that contains `QOp::Quiet` has its buffer partition measured only after the last
/// operation.  The measurement pops every buffer and pushes it back, which would reset whatever a
/// queue remembers between two calls; in quiet histories only the history's own operations touch
/// the queue (return values are still compared one by one).
fn run_ops(ops: &[QOp], stats: &mut Stats) -> Result<u64, Violation> {
    let quiet = ops.iter().any(|o| matches!(o, QOp::Quiet));
    if quiet {
        stats.inc("quiet_histories_measured_at_the_end_only");
    }
    let mut all_shared = String::new();
    for op in ops {
        if let QOp::PushBack { s, shared: true } | QOp::PushFront { s, shared: true } = op {
            all_shared.push_str(s);
        }
    }
    let mut s = Sim { q: BufferQueue::default(), other: BufferQueue::default(), m: VecDeque::new(), mo: VecDeque::new(), parent: StrTendril::from_slice(&all_shared), next_off: 0, last_run: None };
    // the second queue has some content of its own
    s.other.push_back(StrTendril::from_slice("ot"));
    s.other.push_back(StrTendril::from_slice("her"));
    s.mo.push_back("ot".into());
    s.mo.push_back("her".into());
    let mut dg = 0u64;
    for (i, op) in ops.iter().enumerate() {
        let bad = |what: String| Err(Violation::new("return-value-differs", format!("op #{i} {:?}: {what}", op)));
        match op {
            QOp::PushBack { s: t, shared } => {
                let b = mk(&mut s, t, *shared);
                s.q.push_back(b);
                if !t.is_empty() {
                    s.m.push_back(t.clone());
                }
                stats.inc("op_push_back");
            },
            QOp::PushFront { s: t, shared } => {
                let b = mk(&mut s, t, *shared);
                s.q.push_front(b);
                if !t.is_empty() {
                    s.m.push_front(t.clone());
                }
                stats.inc("op_push_front");
            },
            QOp::Next => {
                let got = s.q.next();
                let want = model_next(&mut s.m);
                if got != want {
                    return bad(format!("next() returned {:?}, model {:?}", got, want));
                }
                dg = mix(dg, got.map(|c| c as u64).unwrap_or(0xFFFF_FFFF));
                stats.inc("op_next");
            },
            QOp::Peek => {
                let got = s.q.peek();
                let want = s.m.front().map(|f| f.chars().next().unwrap());
                if got != want {
                    return bad(format!("peek() returned {:?}, model {:?}", got, want));
                }
                stats.inc("op_peek");
            },
            QOp::PopExcept { set } => {
                let mut bits = 0u64;
                for c in set.chars() {
                    if (c as u32) < 64 {
                        bits |= 1 << (c as u32);
                    }
                }
                let got = s.q.pop_except_from(SmallCharSet { bits });
                let want = match s.m.front_mut() {
                    None => None,
                    Some(front) => {
                        let mut n = 0;
                        for c in front.chars() {
                            if (c as u32) < 64 && bits & (1 << (c as u32)) != 0 {
                                break;
                            }
                            n += c.len_utf8();
                        }
                        let r = if n > 0 {
                            let run: String = front.drain(..n).collect();
                            SetResult::NotFromSet(StrTendril::from_slice(&run))
                        } else {
                            let c = front.chars().next().unwrap();
                            front.drain(..c.len_utf8());
                            SetResult::FromSet(c)
                        };
                        if front.is_empty() {
                            s.m.pop_front();
                        }
                        Some(r)
                    },
                };
                if got != want {
                    return bad(format!("pop_except_from returned {:?}, model {:?}", got, want));
                }
                match &got {
                    Some(SetResult::FromSet(_)) => stats.inc("pop_except_from_member"),
                    Some(SetResult::NotFromSet(run)) => {
                        s.last_run = Some(run.clone());
                        stats.inc("pop_except_from_run")
                    },
                    None => stats.inc("pop_except_from_empty"),
                }
                dg = mix(dg, fnv1a(format!("{:?}", got).as_bytes()));
            },
            QOp::Eat { pat, cmp } => {
                if pat.is_empty() || !pat.is_ascii() {
                    continue;
                }
                let cmp = *cmp % 5;
                let ci = cmp == 1;
                let cat: String = s.m.iter().map(|x| x.as_str()).collect();
                let got = match cmp {
                    0 => s.q.eat(pat, u8::eq),
                    1 => s.q.eat(pat, u8::eq_ignore_ascii_case),
                    c => s.q.eat(pat, cmp_fn(c)),
                };
                let cb = cat.as_bytes();
                let mut want = Some(true);
                if cmp >= 2 {
                    // asymmetric closure: the reference is the same call on ONE buffer holding the
                    // concatenation (the property's own wording), whatever argument order `eat` uses
                    let flat = BufferQueue::default();
                    if !cat.is_empty() {
                        flat.push_back(StrTendril::from_slice(&cat));
                    }
                    want = flat.eat(pat, cmp_fn(cmp));
                    let rest: String = snapshot(&flat).concat();
                    let consumed = cat.len() - rest.len();
                    if (want == Some(true)) != (consumed == pat.len()) || (want != Some(true) && consumed != 0) {
                        return bad(format!("eat({:?}, {}) on the single buffer {:?} returned {:?} but consumed {} bytes", pat, CMP_NAMES[cmp as usize], cat, want, consumed));
                    }
                    // ... and the prefix comparison itself is (byte of the text, byte of the pattern),
                    // the order every caller written against this API has relied on
                    let f = cmp_fn(cmp);
                    let mut by_model = Some(true);
                    for (k, pb) in pat.bytes().enumerate() {
                        if k >= cb.len() {
                            by_model = None;
                            break;
                        }
                        if !f(&cb[k], &pb) {
                            by_model = Some(false);
                            break;
                        }
                    }
                    if by_model != want {
                        return bad(format!("eat({:?}, {}) on the single buffer {:?} returned {:?}; comparing (text byte, pattern byte) gives {:?}", pat, CMP_NAMES[cmp as usize], cat.chars().take(80).collect::<String>(), want, by_model));
                    }
                    stats.inc("eat_asymmetric_closure");
                } else {
                    for (k, pb) in pat.bytes().enumerate() {
                        if k >= cb.len() {
                            want = None;
                            break;
                        }
                        let eq = if ci { cb[k].eq_ignore_ascii_case(&pb) } else { cb[k] == pb };
                        if !eq {
                            want = Some(false);
                            break;
                        }
                    }
                }
                if want == Some(true) {
                    let mut left = pat.len();
                    while left > 0 {
                        let f = s.m.front_mut().unwrap();
                        if f.len() <= left {
                            left -= f.len();
                            s.m.pop_front();
                        } else {
                            f.drain(..left);
                            left = 0;
                        }
                    }
                }
                if got != want {
                    let shown: String = cat.chars().take(200).collect();
                    return bad(format!("eat({:?}, {}) returned {:?}, model {:?} (queue {:?})", pat, CMP_NAMES[cmp as usize], got, want, shown));
                }
                match got {
                    Some(true) => stats.inc("eat_match"),
                    Some(false) => stats.inc("eat_mismatch"),
                    None => stats.inc("eat_need_more"),
                }
                if s.m.len() >= 2 && got == Some(true) {
                    stats.inc("eat_match_multi_buffer_queue");
                }
                dg = mix(dg, got.map(|b| b as u64 + 1).unwrap_or(0));
            },
            QOp::PopFront => {
                let got = s.q.pop_front().map(|t| t.to_string());
                let want = s.m.pop_front();
                if got != want {
                    return bad(format!("pop_front returned {:?}, model {:?}", got, want));
                }
                stats.inc("op_pop_front");
            },
            QOp::ChunkMut { n } => {
                let want_front = s.m.front().cloned();
                let mut empty = false;
                {
                    let chunk = s.q.peek_front_chunk_mut();
                    match (chunk, &want_front) {
                        (None, None) => {},
                        (Some(mut c), Some(w)) => {
                            if &**c != w.as_str() {
                                return bad(format!("peek_front_chunk_mut gave {:?}, model {:?}", &**c, w));
                            }
                            for _ in 0..*n {
                                if c.pop_front_char().is_none() {
                                    break;
                                }
                            }
                            empty = c.is_empty();
                        },
                        (a, b) => return bad(format!("peek_front_chunk_mut gave {:?}, model {:?}", a.map(|c| c.to_string()), b)),
                    }
                }
                if empty {
                    s.q.pop_front();
                }
                if let Some(f) = s.m.front_mut() {
                    for _ in 0..*n {
                        match f.chars().next() {
                            Some(c) => {
                                f.drain(..c.len_utf8());
                            },
                            None => break,
                        }
                    }
                    if f.is_empty() {
                        s.m.pop_front();
                    }
                }
                stats.inc("op_chunk_mut");
            },
            QOp::IsEmpty => {
                if s.q.is_empty() != s.m.is_empty() {
                    return bad(format!("is_empty() returned {}, model {}", s.q.is_empty(), s.m.is_empty()));
                }
            },
            QOp::Unread => {
                if let Some(run) = s.last_run.clone() {
                    if !run.is_empty() {
                        s.m.push_front(run.to_string());
                        s.q.push_front(run);
                        stats.inc("op_unread_last_run");
                    }
                }
            },
            QOp::Quiet => {},
            QOp::Swap => {
                s.q.swap_with(&s.other);
                std::mem::swap(&mut s.m, &mut s.mo);
                stats.inc("op_swap_with");
            },
            QOp::ReplaceWithOther => {
                s.q.replace_with(s.other.clone());
                s.m = s.mo.clone();
                stats.inc("op_replace_with");
            },
        }
        if !quiet {
            check_partition(&s, &format!("after op #{i} {:?}", op))?;
        }
    }
    check_partition(&s, "after the last operation")?;
    Ok(dg)
}

fn check_partition(s: &Sim, when: &str) -> Result<(), Violation> {
    let snap = snapshot(&s.q);
    let want: Vec<String> = s.m.iter().cloned().collect();
    if snap != want {
        let cat_a: String = snap.concat();
        let cat_b: String = want.concat();
        let class = if cat_a != cat_b { "content-differs" } else { "partition-differs" };
        let show = |v: &Vec<String>| format!("{:?}", v).chars().take(600).collect::<String>();
        return Err(Violation::new(class, format!("{when}: queue buffers {}, model {}", show(&snap), show(&want))));
    }
    if snap.iter().any(|b| b.is_empty()) {
        return Err(Violation::new("empty-buffer-stored", format!("{when}: queue holds an empty buffer")));
    }
    Ok(())
}

impl QueueWorld {
    fn gen_ops(&self, rng: &mut Rng, thorough: bool) -> Vec<QOp> {
        let n = if thorough { rng.range(3, 120) } else { rng.range(3, 50) };
        let mut ops = vec![];
        if rng.chance(1, 2) {
            ops.push(QOp::Quiet);
        }
        // keep a rough idea of the queue content so that patterns and sets often hit
        let mut approx = String::new();
        for _ in 0..n {
            let op = match rng.weighted(&[22, 8, 12, 6, 16, 18, 3, 6, 2, 2, 1, 4]) {
                0 => {
                    let s = rand_string(rng, 10);
                    approx.push_str(&s);
                    QOp::PushBack { s, shared: rng.chance(1, 2) }
                },
                1 => {
                    let s = rand_string(rng, 6);
                    approx = s.clone() + &approx;
                    QOp::PushFront { s, shared: rng.chance(1, 2) }
                },
                2 => QOp::Next,
                3 => QOp::Peek,
                4 => {
                    let k = rng.range(0, 5);
                    QOp::PopExcept { set: (0..k).map(|_| *rng.pick(SETCHARS)).collect() }
                },
                5 => {
                    let cmp = match rng.below(10) {
                        0..=3 => 0u8,
                        4..=6 => 1,
                        7 => 2,
                        8 => 3,
                        _ => 4,
                    };
                    let ci = cmp == 1 || cmp == 2;
                    let mut pat = if rng.chance(1, 2) && !approx.is_empty() {
                        // a prefix of (roughly) what is in the queue, so that true matches happen
                        let take = rng.range(1, 7);
                        let p: String = approx.chars().take(take).filter(|c| c.is_ascii()).collect();
                        if ci && rng.chance(1, 2) {
                            p.to_ascii_uppercase()
                        } else {
                            p
                        }
                    } else {
                        rng.pick_str(PATS).to_string()
                    };
                    if cmp == 3 && !pat.is_empty() && rng.chance(2, 3) {
                        // a wildcard somewhere in the pattern
                        let at = rng.below(pat.len());
                        pat.replace_range(at..at + 1, "?");
                    }
                    if cmp == 2 {
                        pat = pat.to_ascii_lowercase();
                    }
                    QOp::Eat { pat, cmp }
                },
                6 => QOp::PopFront,
                7 => QOp::ChunkMut { n: rng.range(0, 4) },
                8 => QOp::IsEmpty,
                9 => QOp::Swap,
                10 => QOp::ReplaceWithOther,
                _ => QOp::Unread,
            };
            if !matches!(op, QOp::PushBack { .. } | QOp::PushFront { .. } | QOp::Peek | QOp::IsEmpty) {
                // our approximation of the content is no longer a prefix; reset it sometimes
                if rng.chance(1, 2) {
                    approx.clear();
                }
            }
            let retry = match &op {
                QOp::Eat { pat, .. } if rng.chance(1, 3) => Some((op.clone(), pat.clone())),
                _ => None,
            };
            ops.push(op);
            if let Some((eat, pat)) = retry {
                // the tokenizers' protocol: an inconclusive `eat`, more input arrives (at the back,
                // or at the front through document.write), the same `eat` is retried
                let more = match rng.below(5) {
                    0 => pat.chars().skip(1).take(3).collect::<String>(),
                    1 => pat.chars().last().map(|c| c.to_string()).unwrap_or_default(),
                    2 => "x".to_string(),
                    3 => pat.clone(),
                    _ => rand_string(rng, 3),
                };
                if rng.chance(1, 2) {
                    ops.push(QOp::PushBack { s: more, shared: rng.chance(1, 2) });
                } else {
                    ops.push(QOp::PushFront { s: more, shared: rng.chance(1, 2) });
                }
                ops.push(eat);
                approx.clear();
            }
        }
        ops
    }
}

fn parse(v: &Value) -> Vec<QOp> {
    v["ops"].as_array().map(|a| a.iter().map(QOp::from_json).collect()).unwrap_or_default()
}

fn emit(ops: &[QOp]) -> Value {
    json!({"ops": ops.iter().map(|o| o.to_json()).collect::<Vec<_>>()})
}

fn candidates(ops: &Vec<QOp>) -> Vec<Vec<QOp>> {
    let mut out = vec![];
    let n = ops.len();
    if n > 1 {
        out.push(ops[..n / 2].to_vec());
        out.push(ops[n / 2..].to_vec());
    }
    for i in 0..n {
        let mut v = ops.clone();
        v.remove(i);
        out.push(v);
    }
    for i in 0..n {
        match &ops[i] {
            QOp::PushBack { s, shared } | QOp::PushFront { s, shared } => {
                let is_back = matches!(ops[i], QOp::PushBack { .. });
                let chars: Vec<char> = s.chars().collect();
                for k in 0..chars.len() {
                    let mut c2 = chars.clone();
                    c2.remove(k);
                    let s2: String = c2.into_iter().collect();
                    let mut v = ops.clone();
                    v[i] = if is_back { QOp::PushBack { s: s2, shared: *shared } } else { QOp::PushFront { s: s2, shared: *shared } };
                    out.push(v);
                }
                if *shared {
                    let mut v = ops.clone();
                    v[i] = if is_back { QOp::PushBack { s: s.clone(), shared: false } } else { QOp::PushFront { s: s.clone(), shared: false } };
                    out.push(v);
                }
            },
            QOp::PopExcept { set } if !set.is_empty() => {
                let chars: Vec<char> = set.chars().collect();
                for k in 0..chars.len() {
                    let mut c2 = chars.clone();
                    c2.remove(k);
                    let mut v = ops.clone();
                    v[i] = QOp::PopExcept { set: c2.into_iter().collect() };
                    out.push(v);
                }
            },
            QOp::Eat { pat, cmp } if pat.len() > 1 => {
                let mut v = ops.clone();
                v[i] = QOp::Eat { pat: pat[..pat.len() - 1].to_string(), cmp: *cmp };
                out.push(v);
            },
            _ => {},
        }
    }
    out
}

impl World for QueueWorld {
    fn property(&self) -> &'static str {
        "C13"
    }
    fn world_name(&self) -> &'static str {
        "bufferqueue-history"
    }
    fn gen(&self, rng: &mut Rng, thorough: bool) -> Value {
        emit(&self.gen_ops(rng, thorough))
    }
    fn check(&self, case: &Value, stats: &mut Stats, _t: &[String]) -> (CaseInfo, Result<(), Violation>) {
        let ops = parse(case);
        let key = fnv1a(case.to_string().as_bytes());
        let nontrivial = ops.iter().filter(|o| matches!(o, QOp::PushBack { .. } | QOp::PushFront { .. })).count() >= 2
            && ops.iter().any(|o| matches!(o, QOp::Eat { .. } | QOp::PopExcept { .. } | QOp::Next));
        stats.add("events", ops.len() as u64);
        match run_ops(&ops, stats) {
            Ok(dg) => (CaseInfo { key, nontrivial, digest: dg }, Ok(())),
            Err(v) => (CaseInfo { key, nontrivial, digest: fnv1a(v.class.as_bytes()) }, Err(v)),
        }
    }
    fn minimise(&self, case: &Value, class: &str, budget: usize, _t: &[String]) -> Value {
        let ops = parse(case);
        let mut fails = |o: &Vec<QOp>| -> bool {
            let mut st = Stats::default();
            match std::panic::catch_unwind(std::panic::AssertUnwindSafe(|| run_ops(o, &mut st))) {
                Ok(Err(v)) => v.class == class,
                Ok(Ok(_)) => false,
                Err(_) => class == "panic",
            }
        };
        emit(&greedy_min(ops, &candidates, &mut fails, budget))
    }
    fn rule(&self) -> String {
        "history = seeded sequence of 3..120 BufferQueue operations (push_back/push_front with owned tendrils or slices of one shared allocation, occasionally 4..128 KiB, next, peek, pop_except_from with random small-char sets, eat with patterns biased to prefixes of the queue content, five comparison closures (three asymmetric, judged against the same call on a one-buffer queue) and the retry protocol eat / more input / same eat, pop_front, peek_front_chunk_mut + caller-side removal, un-reading the last run, swap_with, replace_with); every return value is compared with a VecDeque<String> model; the full buffer partition after every operation, or — in quiet histories, half of them — once at the end, because measuring touches the queue; non-trivial = at least two pushes and at least one consuming operation; distinct = distinct hash of the operation list".into()
    }
    fn components(&self) -> Value {
        json!({"real": ["markup5ever::buffer_queue::BufferQueue", "markup5ever::SmallCharSet", "tendril::StrTendril"], "stub": ["caller (operation history)", "VecDeque<String> reference model"]})
    }
    fn assumptions(&self) -> Vec<String> {
        vec!["patterns are non-empty ASCII; comparison closures never match a non-ASCII byte against an ASCII pattern byte".into(), "seeded search: a clean batch is evidence, not proof".into()]
    }
    fn reports_panics(&self) -> bool {
        true
    }
    fn expected_probes(&self) -> Vec<&'static str> {
        vec!["eat_match", "eat_mismatch", "eat_need_more", "eat_match_multi_buffer_queue", "pop_except_from_member", "pop_except_from_run", "op_chunk_mut", "op_swap_with", "eat_asymmetric_closure", "op_unread_last_run"]
    }
}
