//! Generic world interface used by the supervisor/worker engine.

use crate::rng::Rng;
use serde_json::Value;
use std::collections::{BTreeMap, BTreeSet};

#[derive(Clone, Debug)]
pub struct Violation {
    pub class: String,
    pub detail: String,
}

impl Violation {
    pub fn new(class: &str, detail: String) -> Violation {
        Violation { class: class.to_string(), detail }
    }
}

#[derive(Default, Clone, Debug)]
pub struct Stats {
    pub counters: BTreeMap<String, u64>,
    pub sets: BTreeMap<String, BTreeSet<u64>>,
}

impl Stats {
    pub fn add(&mut self, k: &str, n: u64) {
        if n > 0 {
            *self.counters.entry(k.to_string()).or_insert(0) += n;
        }
    }
    pub fn inc(&mut self, k: &str) {
        self.add(k, 1);
    }
    pub fn set_insert(&mut self, k: &str, v: u64) {
        self.sets.entry(k.to_string()).or_default().insert(v);
    }
    pub fn merge(&mut self, other: &Stats) {
        for (k, v) in &other.sets {
            self.sets.entry(k.clone()).or_default().extend(v.iter().cloned());
        }
        for (k, v) in &other.counters {
            *self.counters.entry(k.clone()).or_insert(0) += *v;
        }
    }
}

pub struct CaseInfo {
    /// hash identifying the (input, schedule) pair
    pub key: u64,
    /// non-trivial by the world's stated rule
    pub nontrivial: bool,
    /// digest of the event log of the executed case (determinism self-test)
    pub digest: u64,
}

pub trait World {
    fn property(&self) -> &'static str;
    fn world_name(&self) -> &'static str;
    /// Generate case `idx` from its own PRNG stream.
    fn gen(&self, rng: &mut Rng, thorough: bool) -> Value;
    /// Execute and judge one case.
    /// `toggles`: known-finding emulation switches that are on in the reference model / oracle.
    fn check(&self, case: &Value, stats: &mut Stats, toggles: &[String]) -> (CaseInfo, Result<(), Violation>);
    /// Minimise a failing case, keeping the violation class.
    fn minimise(&self, case: &Value, class: &str, budget: usize, toggles: &[String]) -> Value;
    /// Simpler variants of a case, most aggressive first (used by the supervisor to minimise cases
    /// that kill the worker process, where the predicate has to run in a subprocess).
    fn shrink_candidates(&self, _case: &Value) -> Vec<Value> {
        vec![]
    }
    /// Rule text for the evidence file.
    fn rule(&self) -> String;
    fn components(&self) -> Value;
    fn assumptions(&self) -> Vec<String>;
    /// Only the totality property reports panics / aborts / hangs as violations.
    fn reports_panics(&self) -> bool {
        false
    }
    /// Worker death (abort, stack overflow, SIGSEGV) and hangs are violations of this property.
    fn reports_crashes(&self) -> bool {
        self.reports_panics()
    }
    /// Probe counters that should be non-zero in any healthy run.
    fn expected_probes(&self) -> Vec<&'static str> {
        vec![]
    }
}

/// Generic greedy minimiser.
pub fn greedy_min<T: Clone>(
    start: T,
    candidates: &dyn Fn(&T) -> Vec<T>,
    fails: &mut dyn FnMut(&T) -> bool,
    budget: usize,
) -> T {
    let mut cur = start;
    let mut used = 0usize;
    loop {
        let mut progressed = false;
        for c in candidates(&cur) {
            if used >= budget {
                return cur;
            }
            used += 1;
            if fails(&c) {
                cur = c;
                progressed = true;
                break;
            }
        }
        if !progressed {
            return cur;
        }
    }
}

/// ddmin-style string candidates: remove spans (large first), then simplify chars.
pub fn string_candidates(s: &str) -> Vec<(String, usize, usize)> {
    // returns (new string, removed_start_char, removed_len_chars); removed_len 0 => substitution
    let chars: Vec<char> = s.chars().collect();
    let n = chars.len();
    let mut out = Vec::new();
    if n == 0 {
        return out;
    }
    let mut size = n;
    let mut produced = 0usize;
    while size >= 1 {
        let mut start = 0;
        while start < n {
            let end = (start + size).min(n);
            let mut v: String = chars[..start].iter().collect();
            v.extend(chars[end..].iter());
            out.push((v, start, end - start));
            produced += 1;
            start += size;
            if produced > 4000 {
                return out;
            }
        }
        if size == 1 {
            break;
        }
        size = (size + 1) / 2;
        if n > 2048 && size < n / 256 {
            break;
        }
    }
    if n <= 1024 {
        for i in 0..n {
            let c = chars[i];
            if c != 'a' && !matches!(c, '<' | '>' | '&' | '/' | '!' | '-' | '=' | '"' | '\'' | '\r' | '\n' | ';' | '#') {
                let mut v = chars.clone();
                v[i] = 'a';
                out.push((v.into_iter().collect(), i, 0));
            }
        }
    }
    out
}


/// Text of a panic payload.
pub fn panic_text(p: &Box<dyn std::any::Any + Send>) -> String {
    if let Some(s) = p.downcast_ref::<&str>() {
        s.to_string()
    } else if let Some(s) = p.downcast_ref::<String>() {
        s.clone()
    } else {
        "panic".to_string()
    }
}

/// Run the two sides of a differential comparison.  A panic on BOTH sides is some other
/// property's business (totality) and is passed on; a panic on exactly ONE side is a difference
/// in outcome between the two sides, i.e. a violation of the differential property itself.
pub fn run_pair<T>(what_a: &str, what_b: &str, fa: impl FnOnce() -> T, fb: impl FnOnce() -> T) -> Result<(T, T), Violation> {
    let ra = std::panic::catch_unwind(std::panic::AssertUnwindSafe(fa));
    let rb = std::panic::catch_unwind(std::panic::AssertUnwindSafe(fb));
    match (ra, rb) {
        (Ok(a), Ok(b)) => Ok((a, b)),
        (Err(p), Err(_)) => std::panic::resume_unwind(p),
        (Ok(_), Err(p)) => Err(Violation::new("outcome-differs-panic", format!("{what_b} panics ({}) while {what_a} completes", truncate(&panic_text(&p), 300)))),
        (Err(p), Ok(_)) => Err(Violation::new("outcome-differs-panic", format!("{what_a} panics ({}) while {what_b} completes", truncate(&panic_text(&p), 300)))),
    }
}

fn truncate(s: &str, n: usize) -> String {
    s.chars().take(n).collect()
}
