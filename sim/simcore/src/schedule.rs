//! Feed schedules: how the logical input reaches the parser.

use crate::rng::Rng;
use serde_json::{json, Value};
use tendril::StrTendril;

#[derive(Clone, Copy, Debug, PartialEq, Eq)]
pub enum Repr {
    /// every chunk is a fresh tendril (inline when <= 8 bytes)
    Owned,
    /// every chunk is a `subtendril` of one shared parent; the parent is dropped
    SharedAdjacent,
    /// same, but the parent stays alive for the whole run
    SharedKeepParent,
}

impl Repr {
    pub fn name(self) -> &'static str {
        match self {
            Repr::Owned => "owned",
            Repr::SharedAdjacent => "shared-adjacent",
            Repr::SharedKeepParent => "shared-keep-parent",
        }
    }
    pub fn from_name(s: &str) -> Repr {
        match s {
            "shared-adjacent" => Repr::SharedAdjacent,
            "shared-keep-parent" => Repr::SharedKeepParent,
            _ => Repr::Owned,
        }
    }
}

#[derive(Clone, Debug, PartialEq, Eq)]
pub struct PauseAct {
    /// ordinal of the pause (script or encoding indicator) this applies to
    pub at: usize,
    /// number of further chunks appended to the queue before resuming (F2)
    pub deliver_before_resume: usize,
    /// text pushed to the front of the queue (F3, script pauses only)
    pub inject: Option<String>,
    /// the script detaches these elements from the DOM (selector modulo the number of attached
    /// elements at that moment; script pauses only, F11)
    pub remove: Vec<u32>,
}

#[derive(Clone, Debug, PartialEq, Eq, Default)]
pub struct Schedule {
    /// char offsets into the input; sorted; a repeated offset is an empty chunk
    pub cuts: Vec<usize>,
    pub repr_name: String,
    pub pauses: Vec<PauseAct>,
    /// ordinals of suspension points at which the collector runs (F5)
    pub collect_at: Vec<usize>,
    /// deliver only the first n chars, then end() (F4)
    pub truncate_at: Option<usize>,
    /// call end() at this pause ordinal, with unread input left in the queue (F4, C04 only)
    pub end_at_pause: Option<usize>,
    /// F15: the embedder hands every chunk over in a queue of its own — whatever a feed() that
    /// returned Done left in the queue is gone (feed() is documented to drain it)
    pub fresh_queue: bool,
}

impl Schedule {
    pub fn one_piece() -> Schedule {
        Schedule { repr_name: "owned".into(), ..Default::default() }
    }

    pub fn repr(&self) -> Repr {
        Repr::from_name(&self.repr_name)
    }

    pub fn is_trivial(&self) -> bool {
        self.cuts.is_empty()
            && self.pauses.iter().all(|p| p.inject.is_none() && p.remove.is_empty())
            && self.collect_at.is_empty()
            && self.truncate_at.is_none()
            && self.end_at_pause.is_none()
    }

    pub fn to_json(&self) -> Value {
        json!({
            "cuts": self.cuts,
            "repr": self.repr_name,
            "pauses": self.pauses.iter().map(|p| json!({
                "at": p.at, "deliver_before_resume": p.deliver_before_resume, "inject": p.inject, "remove": p.remove
            })).collect::<Vec<_>>(),
            "collect_at": self.collect_at,
            "truncate_at": self.truncate_at,
            "end_at_pause": self.end_at_pause,
            "fresh_queue": self.fresh_queue,
        })
    }

    pub fn from_json(v: &Value) -> Schedule {
        let us = |x: &Value| x.as_u64().unwrap_or(0) as usize;
        Schedule {
            cuts: v["cuts"].as_array().map(|a| a.iter().map(us).collect()).unwrap_or_default(),
            repr_name: v["repr"].as_str().unwrap_or("owned").to_string(),
            pauses: v["pauses"]
                .as_array()
                .map(|a| {
                    a.iter()
                        .map(|p| PauseAct {
                            at: us(&p["at"]),
                            deliver_before_resume: us(&p["deliver_before_resume"]),
                            inject: p["inject"].as_str().map(|s| s.to_string()),
                            remove: p["remove"].as_array().map(|a| a.iter().map(|x| x.as_u64().unwrap_or(0) as u32).collect()).unwrap_or_default(),
                        })
                        .collect()
                })
                .unwrap_or_default(),
            collect_at: v["collect_at"].as_array().map(|a| a.iter().map(us).collect()).unwrap_or_default(),
            truncate_at: v["truncate_at"].as_u64().map(|x| x as usize),
            end_at_pause: v["end_at_pause"].as_u64().map(|x| x as usize),
            fresh_queue: v["fresh_queue"].as_bool().unwrap_or(false),
        }
    }

    /// Hash of the schedule (for distinct counting).
    pub fn key(&self) -> u64 {
        crate::rng::fnv1a(self.to_json().to_string().as_bytes())
    }
}

/// Positions (cut before char i) at which hidden tokenizer state is likely live.
pub fn interesting_positions(chars: &[char]) -> Vec<usize> {
    let n = chars.len();
    let mut out = Vec::new();
    let mut window = 0usize; // remaining chars in a look-ahead window
    let mut plain = 0usize;
    for i in 1..n {
        let p = chars[i - 1];
        let c = chars[i];
        let mut hit = false;
        if p == '\r' || c == '\u{feff}' || c == '\n' && p == '\r' {
            hit = true;
        }
        if p == '&' {
            window = window.max(10);
        }
        if p == '!' && i >= 2 && chars[i - 2] == '<' {
            window = window.max(16);
        }
        if p == '<' || p == '/' && i >= 2 && chars[i - 2] == '<' {
            window = window.max(2);
        }
        if matches!(p, '-' | ']' | '=' | '"' | '\'' | '>' | '#' | ';') {
            hit = true;
        }
        // whitespace inside a doctype precedes the PUBLIC/SYSTEM look-ahead
        if p.is_ascii_whitespace() && i >= 2 {
            window = window.max(7);
        }
        if window > 0 {
            hit = true;
            window -= 1;
        }
        if p.is_ascii_alphanumeric() {
            plain += 1;
            if plain == 15 || plain == 16 || plain == 17 || plain == 32 {
                hit = true;
            }
        } else {
            plain = 0;
        }
        if hit {
            out.push(i);
        }
    }
    out
}

#[derive(Clone, Copy, Debug, PartialEq, Eq)]
pub enum CutProfile {
    AllOne,
    Geometric,
    FewLarge,
    Biased,
    SingleInteresting,
    None,
}

pub fn gen_cuts(rng: &mut Rng, chars: &[char], profile: CutProfile) -> Vec<usize> {
    let n = chars.len();
    let mut cuts: Vec<usize> = Vec::new();
    if n == 0 {
        return cuts;
    }
    match profile {
        CutProfile::None => {},
        CutProfile::AllOne => {
            cuts.extend(1..n);
        },
        CutProfile::Geometric => {
            let mut i = 0;
            loop {
                i += rng.range(1, 8);
                if i >= n {
                    break;
                }
                cuts.push(i);
            }
        },
        CutProfile::FewLarge => {
            for _ in 0..rng.range(1, 3) {
                cuts.push(rng.below(n + 1));
            }
        },
        CutProfile::Biased => {
            let ip = interesting_positions(chars);
            for p in ip {
                if rng.chance(1, 2) {
                    cuts.push(p);
                }
            }
            for _ in 0..rng.small(3) {
                cuts.push(rng.below(n + 1));
            }
        },
        CutProfile::SingleInteresting => {
            let ip = interesting_positions(chars);
            if ip.is_empty() {
                cuts.push(rng.below(n + 1));
            } else {
                cuts.push(*rng.pick(&ip));
                if rng.chance(1, 3) {
                    cuts.push(*rng.pick(&ip));
                }
            }
        },
    }
    // empty chunks: duplicate a few offsets, and sometimes cut at 0 / n
    if rng.chance(1, 6) && !cuts.is_empty() {
        for _ in 0..rng.range(1, 2) {
            let c = *rng.pick(&cuts);
            cuts.push(c);
        }
    }
    if rng.chance(1, 16) {
        cuts.push(0);
    }
    if rng.chance(1, 16) {
        cuts.push(n);
    }
    cuts.sort_unstable();
    cuts
}

pub fn pick_profile(rng: &mut Rng) -> CutProfile {
    match rng.weighted(&[25, 15, 15, 30, 15]) {
        0 => CutProfile::AllOne,
        1 => CutProfile::Geometric,
        2 => CutProfile::FewLarge,
        3 => CutProfile::Biased,
        _ => CutProfile::SingleInteresting,
    }
}

pub const INJECTS: &[&str] = &[
    "x",
    "<b>\r",
    "\n",
    "\r\n",
    "\u{feff}y",
    "&amp",
    "&am",
    "<!--",
    "<script>y</script>",
    "<script>z</script>tail",
    "</div><p>",
    "<table><tr>",
    "<!DOCTYPE a\r",
    "<![CDATA[",
    "abcdefghijklmnopqrstuvwxyz\n",
    "<meta charset=k>",
    "<svg><title>",
    "</",
    "<",
    "&#x4",
    "\0",
    "<plaintext>",
    "<textarea>",
];

pub fn pick_repr(rng: &mut Rng) -> Repr {
    match rng.weighted(&[50, 30, 20]) {
        0 => Repr::Owned,
        1 => Repr::SharedAdjacent,
        _ => Repr::SharedKeepParent,
    }
}

#[derive(Clone, Copy, Debug)]
pub struct SchedKnobs {
    pub allow_inject: bool,
    pub allow_collect: bool,
    pub allow_truncate: bool,
    pub allow_end_at_pause: bool,
    pub allow_script_dom: bool,
}

pub fn gen_schedule(rng: &mut Rng, input: &str, knobs: SchedKnobs) -> Schedule {
    let chars: Vec<char> = input.chars().collect();
    let profile = pick_profile(rng);
    let cuts = gen_cuts(rng, &chars, profile);
    let repr = pick_repr(rng);
    let mut pauses = Vec::new();
    // swarm: pause actions enabled in 60% of cases
    if rng.chance(3, 5) {
        for at in 0..4 {
            let deliver = if rng.chance(1, 3) { rng.range(1, 3) } else { 0 };
            let inject = if knobs.allow_inject && rng.chance(3, 10) {
                Some(rng.pick(INJECTS).to_string())
            } else {
                None
            };
            let mut remove = vec![];
            if knobs.allow_script_dom && rng.chance(1, 2) {
                for _ in 0..rng.range(1, 3) {
                    remove.push(rng.below(1 << 20) as u32);
                }
            }
            if deliver > 0 || inject.is_some() || !remove.is_empty() {
                pauses.push(PauseAct { at, deliver_before_resume: deliver, inject, remove });
            }
        }
    }
    let mut collect_at = Vec::new();
    if knobs.allow_collect && rng.chance(1, 2) {
        let npoints = cuts.len() + 6;
        if rng.chance(1, 3) {
            collect_at.extend(0..npoints.min(64)); // at every suspension
        } else {
            for s in 0..npoints.min(256) {
                if rng.chance(1, 4) {
                    collect_at.push(s);
                }
            }
        }
    }
    let truncate_at = if knobs.allow_truncate && rng.chance(1, 20) && !chars.is_empty() {
        Some(rng.below(chars.len() + 1))
    } else {
        None
    };
    let end_at_pause = if knobs.allow_end_at_pause && rng.chance(1, 20) { Some(rng.below(3)) } else { None };
    // drawn last so that the streams of older cases stay what they were
    let fresh_queue = rng.chance(1, 4);
    Schedule { cuts, repr_name: repr.name().to_string(), pauses, collect_at, truncate_at, end_at_pause, fresh_queue }
}

/// Materialise the chunks of `input` for a schedule.  Returns the tendrils in
/// delivery order plus an optional parent that must stay alive.
pub fn make_chunks(input: &str, sched: &Schedule) -> (Vec<StrTendril>, Option<StrTendril>) {
    let limit_chars = sched.truncate_at;
    // char offset -> byte offset
    let mut byte_of: Vec<usize> = Vec::with_capacity(input.len() + 1);
    for (b, _) in input.char_indices() {
        byte_of.push(b);
    }
    byte_of.push(input.len());
    let nchars = byte_of.len() - 1;
    let end = limit_chars.map(|l| l.min(nchars)).unwrap_or(nchars);
    let mut bounds: Vec<usize> = vec![0];
    for c in &sched.cuts {
        bounds.push((*c).min(end));
    }
    bounds.push(end);
    let repr = sched.repr();
    let parent: Option<StrTendril> = match repr {
        Repr::Owned => None,
        _ => Some(StrTendril::from_slice(input)),
    };
    let mut out = Vec::with_capacity(bounds.len());
    for w in bounds.windows(2) {
        let (a, b) = (byte_of[w[0]], byte_of[w[1].max(w[0])]);
        let t = match &parent {
            None => StrTendril::from_slice(&input[a..b]),
            Some(p) => p.subtendril(a as u32, (b - a) as u32),
        };
        out.push(t);
    }
    let keep = if repr == Repr::SharedKeepParent { parent } else { None };
    (out, keep)
}
