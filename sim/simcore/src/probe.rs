//! Consumption probe: the harness owns the `BufferQueue`, knows every
//! character it ever pushed (in logical order, injections included) and can
//! measure what is still unread without cloning any tendril.
//! All offsets are BYTE offsets into the logical stream (always on character boundaries);
//! measuring is O(number of buffers), never O(length).

use std::cell::{Cell, RefCell};

use markup5ever::buffer_queue::BufferQueue;
use tendril::StrTendril;

pub struct Probe {
    pub queue: BufferQueue,
    /// logical stream so far: everything delivered, injections spliced at the
    /// consumption offset of their pause
    pub logical: RefCell<String>,
    /// lb[i] = number of line breaks (LF, CR, CRLF once) in logical[..i] (i = byte offset)
    lb: RefCell<Vec<u32>>,
    pub in_end: Cell<bool>,
    pub enabled: Cell<bool>,
}

impl Default for Probe {
    fn default() -> Self {
        Probe::new()
    }
}

impl Probe {
    pub fn new() -> Probe {
        Probe {
            queue: BufferQueue::default(),
            logical: RefCell::new(String::new()),
            lb: RefCell::new(vec![0]),
            in_end: Cell::new(false),
            enabled: Cell::new(true),
        }
    }

    /// Number of bytes still in the queue.  Pops every buffer and pushes
    /// it back in reverse: no tendril is cloned, so representation is not perturbed.
    pub fn unread(&self) -> usize {
        let mut bufs: Vec<StrTendril> = Vec::new();
        let mut n = 0usize;
        while let Some(b) = self.queue.pop_front() {
            n += b.len32() as usize;
            bufs.push(b);
        }
        while let Some(b) = bufs.pop() {
            self.queue.push_front(b);
        }
        n
    }

    /// The unread text (for diagnostics and the XML / BufferQueue checks).
    pub fn unread_text(&self) -> String {
        let mut bufs: Vec<StrTendril> = Vec::new();
        let mut s = String::new();
        while let Some(b) = self.queue.pop_front() {
            s.push_str(&b);
            bufs.push(b);
        }
        while let Some(b) = bufs.pop() {
            self.queue.push_front(b);
        }
        s
    }

    pub fn pushed(&self) -> usize {
        self.logical.borrow().len()
    }

    pub fn consumed(&self) -> usize {
        if self.in_end.get() {
            return self.pushed();
        }
        self.pushed().saturating_sub(self.unread())
    }

    fn extend_lb(&self, from: usize) {
        let logical = self.logical.borrow();
        let bytes = logical.as_bytes();
        let mut lb = self.lb.borrow_mut();
        lb.truncate(from + 1);
        for i in from..bytes.len() {
            let c = bytes[i];
            let prev = if i > 0 { bytes[i - 1] } else { 0 };
            let inc = (c == b'\r' || (c == b'\n' && prev != b'\r')) as u32;
            let last = lb[i];
            lb.push(last + inc);
        }
    }

    /// Deliver a chunk at the end of the stream.
    pub fn push_back(&self, t: StrTendril) {
        let from = self.logical.borrow().len();
        self.logical.borrow_mut().push_str(&t);
        self.extend_lb(from);
        self.queue.push_back(t);
    }

    /// `document.write`: text goes to the front of the unread input.  Returns
    /// the logical offset at which it was spliced.
    pub fn inject_front(&self, t: StrTendril) -> usize {
        let mut at = self.consumed();
        {
            let mut l = self.logical.borrow_mut();
            while at < l.len() && !l.is_char_boundary(at) {
                at += 1;
            }
            l.insert_str(at, &t);
        }
        self.extend_lb(at);
        self.queue.push_front(t);
        at
    }

    pub fn linebreaks_upto(&self, n: usize) -> u64 {
        let lb = self.lb.borrow();
        lb[n.min(lb.len() - 1)] as u64
    }

    pub fn logical_string(&self) -> String {
        self.logical.borrow().clone()
    }

    pub fn char_before(&self, off: usize) -> Option<char> {
        let l = self.logical.borrow();
        if off == 0 || off > l.len() || !l.is_char_boundary(off) {
            None
        } else {
            l[..off].chars().next_back()
        }
    }
}
