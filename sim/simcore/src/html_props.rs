//! Oracles and case generation for the properties decided in the HTML stream world:
//! C03 C04 C05 C06 C08 C09 C18 C19.

use serde_json::{json, Value};

use crate::gen_html::{self, gen_html, pick_size, SizeClass, CONTEXTS, TAGS};
use crate::html_stream::*;
use crate::model::{Call, Id, Kind, ModelSink};
use crate::rng::{fnv1a, mix, Rng};
use crate::schedule::{gen_schedule, SchedKnobs, Schedule};
use crate::world::{greedy_min, string_candidates, CaseInfo, Stats, Violation, World};

#[derive(Clone, Copy, Debug, PartialEq, Eq)]
pub enum HProp {
    C03,
    C04,
    C05,
    C06,
    C08,
    C09,
    C18,
    C19,
}

impl HProp {
    pub fn id(self) -> &'static str {
        match self {
            HProp::C03 => "C03",
            HProp::C04 => "C04",
            HProp::C05 => "C05",
            HProp::C06 => "C06",
            HProp::C08 => "C08",
            HProp::C09 => "C09",
            HProp::C18 => "C18",
            HProp::C19 => "C19",
        }
    }
}

pub struct HtmlWorld {
    pub prop: HProp,
}

// ------------------------------------------------------------------ generation

fn gen_opts(rng: &mut Rng) -> Opts {
    let mut o = Opts::default();
    // swarm: every knob is at its default in a fixed share of the cases
    if rng.chance(1, 4) {
        o.exact_errors = true;
    }
    if rng.chance(1, 5) {
        o.discard_bom = false;
    }
    if rng.chance(1, 10) {
        o.profile = true;
    }
    if rng.chance(1, 6) {
        o.tb_exact_errors = true;
    }
    if rng.chance(1, 3) {
        o.scripting = false;
    }
    if rng.chance(1, 10) {
        o.iframe_srcdoc = true;
    }
    if rng.chance(1, 10) {
        o.drop_doctype = true;
    }
    if rng.chance(1, 10) {
        o.quirks = rng.below(3) as u8;
    }
    o
}

fn gen_tree_pipeline(rng: &mut Rng, allow_fragment: bool, allow_attach: bool) -> Pipeline {
    let context = if allow_fragment && rng.chance(1, 3) {
        let (n, l) = *rng.pick(CONTEXTS);
        Some((n.to_string(), l.to_string()))
    } else {
        None
    };
    let with_form = context.is_some() && rng.chance(1, 3);
    Pipeline::Tree {
        context,
        ctx_scripting: rng.chance(1, 2),
        attach_ok: allow_attach && rng.chance(1, 5),
        allow_shadow: rng.chance(9, 10),
        driver: false,
        with_form,
        driver_mode: 0,
    }
}

fn gen_tok_pipeline(rng: &mut Rng, all_states: bool) -> Pipeline {
    let policy = if rng.chance(1, 2) { 0 } else { (rng.next_u64() | 1) & !SUPPRESS_BIT };
    let initial_state = if rng.chance(1, 3) {
        if all_states {
            Some(rng.pick(&all_state_names()).to_string())
        } else {
            Some(rng.pick(START_STATES_SANE).to_string())
        }
    } else {
        None
    };
    let last_start_tag = if rng.chance(1, 3) { Some(rng.pick(TAGS).to_string()) } else { None };
    Pipeline::Tok { policy, initial_state, last_start_tag }
}

fn gen_input(rng: &mut Rng, thorough: bool) -> String {
    if rng.chance(1, 250) {
        return gen_html::gen_scale_input(rng);
    }
    let size = pick_size(rng, thorough);
    gen_html(rng, size)
}

/// Input focussed on line breaks in every syntactic position (C09).
fn gen_linebreak_input(rng: &mut Rng, thorough: bool) -> String {
    let base = gen_input(rng, thorough);
    let mut out = String::new();
    for c in base.chars() {
        out.push(c);
        if rng.chance(1, 10) {
            out.push_str(rng.pick_str(&["\n", "\r", "\r\n", "\n\n", "\r\r", "\n\r"]));
        }
    }
    out
}

fn gen_meta_input(rng: &mut Rng, thorough: bool) -> String {
    let mut out = String::new();
    let pre = [
        "", "<head>", "<body>", "<table>", "<template>", "<svg>", "<math><mi>", "<select>",
        "<noscript>", "<head></head>", "</head>", "<frameset>", "<svg><foreignObject>",
        "<table><tr><td>", "<title>", "<svg><desc>", "<div><template shadowrootmode=open>",
        "<p>", "</html>", "<math><annotation-xml encoding='text/html'>", "<script>", "<!--",
        "<textarea>", "<colgroup>", "<caption>", "<svg><title>",
    ];
    if rng.chance(1, 8) {
        gen_html::gen_doctype(rng, &mut out);
    }
    for _ in 0..rng.range(1, 3) {
        out.push_str(rng.pick_str(&pre));
        if rng.chance(1, 4) {
            gen_html::gen_text(rng, &mut out, 2);
        }
        if rng.chance(1, 6) {
            // a script pause right before the declaration: whatever the embedder does to the DOM there
            // (F11) happens between the context and the meta
            out.push_str(rng.pick_str(&["<script></script>", "<script>x</script>", "<tr><script></script>", "<tbody><script></script>"]));
        }
        let tag = *rng.pick(&["meta", "meta", "meta", "meta", "META", "link", "base", "metax", "bgsound", "basefont"]);
        if rng.chance(2, 5) {
            // a content-type declaration, attributes in random order and quoting
            let mut content = String::new();
            gen_html::gen_meta_content(rng, &mut content);
            let q = *rng.pick(&['"', '\'']);
            let content: String = content.chars().filter(|c| *c != q).collect();
            let mut he = String::new();
            gen_html::rand_case(rng, "content-type", &mut he);
            if rng.chance(1, 12) {
                he.push_str(rng.pick_str(&[" ", "x", ";"]));
            }
            let a1 = format!("http-equiv={q}{he}{q}");
            let a2 = format!("content={q}{content}{q}");
            out.push('<');
            out.push_str(tag);
            out.push(' ');
            if rng.chance(1, 2) {
                out.push_str(&format!("{a1} {a2}"));
            } else {
                out.push_str(&format!("{a2} {a1}"));
            }
            if rng.chance(1, 10) {
                out.push_str(" charset=other");
            }
            out.push_str(rng.pick_str(&[">", "/>", " >"]));
        } else {
            gen_html::gen_start_tag(rng, tag, &mut out);
        }
        if rng.chance(1, 3) {
            out.push_str(&gen_input(rng, false).chars().take(40).collect::<String>());
        }
    }
    if rng.chance(1, 3) {
        out = gen_html::mutate(rng, &out);
    }
    let _ = thorough;
    out
}

/// Inputs for the collector (C18): some context that makes the builder hold element pointers, a
/// script pause inside it, closers, and tags that make the builder use those pointers again.
fn gen_gc_input(rng: &mut Rng) -> String {
    // families pair a context with the closers and the follow-up tags that make the builder use
    // the pointers it kept (head pointer, form pointer, formatting list, table / select / template state)
    let families: [(&[&str], &[&str], &[&str]); 8] = [
        (&["<head></head>", "</head>", "<head>", "<head></head><template>", "</head><template>", "<head><template>"],
         &["", "</template>", "</head>", "</template></head>"],
         &["<title>t</title>", "<meta>", "<link>", "<style></style>", "<base>", "<template>", "<script></script>", "x"]),
        (&["<form>", "<table><form>", "<form><template>", "<form><div>", "<body><form><table>", "<form><select>"],
         &["", "</form>", "</template>", "</table>", "</div>", "</select>"],
         &["<input>", "<input name=a>", "<button>", "<select>", "<textarea>", "<fieldset>", "<object>", "<img>"]),
        (&["<b><i>", "<a><b><p>", "<p><b>", "<b><table>", "<font><font>", "<nobr>", "<a><table><tr><td>", "<b><template>"],
         &["", "</b>", "</a>", "</p>", "</i>", "</table>", "</td></tr></table>", "</template>"],
         &["x", "<p>y", "<b>z", "text", "<a>", "<div>", "<nobr>", "<table>"]),
        (&["<table>", "<table><tr>", "<table><tr><td>", "<table><caption>", "<table><colgroup>", "<table><tbody>"],
         &["", "</td>", "</tr>", "</table>", "</caption>", "</tbody>"],
         &["x", "<tr>", "<td>", "<caption>", "<col>", "<tbody>", "<input type=hidden>", "<form>", "<b>"]),
        (&["<select>", "<select><option>", "<select><optgroup>", "<select><button><selectedcontent>", "<table><select>"],
         &["", "</option>", "</select>", "</optgroup>", "</button>"],
         &["<option>", "<option selected>o", "<optgroup>", "<hr>", "<input>", "x", "<select>"]),
        (&["<template>", "<div><template shadowrootmode=open>", "<template><template>", "<template><table>", "<template><tr>"],
         &["", "</template>", "</template></template>", "</div>", "</table>"],
         &["<td>", "<tr>", "x", "<div>", "<template>", "<col>", "<title>"]),
        (&["<svg>", "<svg><foreignObject>", "<math><mi>", "<svg><desc><b>", "<math><annotation-xml encoding='text/html'>", "<svg><title>"],
         &["", "</svg>", "</foreignObject>", "</math>", "</b>", "</desc>"],
         &["<p>", "<b>", "x", "<svg>", "<mglyph>", "<table>", "<font color=x>"]),
        (&["<frameset>", "<frameset><frame>", "<body>", "<html><body>", "<body><div>", "<li><ul><li>", "<dl><dd><dl>", "<ruby><rb><rt>"],
         &["", "</frameset>", "</body>", "</html>", "</div>", "</li>", "</dd>", "</ul>"],
         &["<noframes>", "<frame>", "x", "<div>", "<li>", "<dd>", "<dt>", "<rt>", "<body a=b>", "<html c=d>"]),
    ];
    let scripts = ["<script></script>", "<script>s</script>", "<svg><script></script></svg>", "<script></script><script></script>"];
    let (pres, closers, tails) = *rng.pick(&families);
    let mut out = String::new();
    if rng.chance(1, 6) {
        out.push_str("<!DOCTYPE html>");
    }
    out.push_str(rng.pick_str(pres));
    if rng.chance(1, 4) {
        let (p2, _, _) = *rng.pick(&families);
        out.push_str(rng.pick_str(p2));
    }
    out.push_str(rng.pick_str(&scripts));
    for _ in 0..rng.range(0, 2) {
        out.push_str(rng.pick_str(closers));
    }
    for _ in 0..rng.range(1, 3) {
        out.push_str(rng.pick_str(tails));
        if rng.chance(1, 4) {
            out.push_str(rng.pick_str(&scripts));
        }
        if rng.chance(1, 4) {
            out.push_str(rng.pick_str(closers));
        }
    }
    if rng.chance(1, 5) {
        out = gen_html::mutate(rng, &out);
    }
    out
}

/// Pathological inputs for totality (C04).
fn gen_pathological(rng: &mut Rng, thorough: bool) -> String {
    let scale = if thorough { 4 } else { 1 };
    let mut out = String::new();
    match rng.below(9) {
        0 => {
            let tag = *rng.pick(&["div", "b", "a", "table", "template", "svg", "span", "font", "i", "select", "p", "math"]);
            let depth = rng.range(100, 5000 * scale);
            for _ in 0..depth {
                out.push('<');
                out.push_str(tag);
                out.push('>');
            }
            if rng.chance(1, 2) {
                for _ in 0..rng.below(depth) {
                    out.push_str("</");
                    out.push_str(tag);
                    out.push('>');
                }
            }
        },
        1 => {
            out.push_str("<a b=\"");
            for _ in 0..rng.range(1000, 250_000 * scale) {
                out.push('v');
            }
            out.push_str("\">");
        },
        2 => {
            out.push_str("<!--");
            for _ in 0..rng.range(1000, 250_000 * scale) {
                out.push('-');
            }
        },
        3 => {
            out.push_str("<x");
            for i in 0..rng.range(100, 2500 * scale) {
                out.push_str(&format!(" a{}=1", i));
            }
            out.push('>');
        },
        4 => {
            for _ in 0..rng.range(100, 16_000 * scale) {
                out.push_str(rng.pick_str(&["<b>", "<i>", "<a>", "<font>", "<nobr>", "<p>", "</b>", "</a>"]));
            }
        },
        5 => {
            for _ in 0..rng.range(1000, 250_000 * scale) {
                out.push(*rng.pick(&['x', '\r', '\n', '&', '\0']));
            }
        },
        6 => {
            for _ in 0..rng.range(100, 4000 * scale) {
                out.push_str(rng.pick_str(&["<table>", "<tr>", "<td>", "<caption>", "x", "<select>", "<template>", "</table>"]));
            }
        },
        7 => {
            for _ in 0..rng.range(100, 3000 * scale) {
                out.push_str(rng.pick_str(&["<svg>", "<math>", "<foreignObject>", "<mi>", "<desc>", "<p>", "<annotation-xml>", "</svg>", "<![CDATA[", "]]>"]));
            }
        },
        _ => {
            out.push_str("&");
            for _ in 0..rng.range(100, 100_000 * scale) {
                out.push('a');
            }
        },
    }
    out
}

const FLIPS: &[&str] = &["exact_errors", "profile", "tb_exact_errors", "discard_bom", "drop_doctype"];

impl HtmlWorld {
    fn knobs(&self) -> SchedKnobs {
        match self.prop {
            HProp::C03 | HProp::C09 | HProp::C19 => {
                SchedKnobs { allow_inject: true, allow_collect: false, allow_truncate: false, allow_end_at_pause: false, allow_script_dom: false }
            },
            HProp::C04 => SchedKnobs { allow_inject: true, allow_collect: true, allow_truncate: true, allow_end_at_pause: true, allow_script_dom: true },
            HProp::C05 => SchedKnobs { allow_inject: true, allow_collect: true, allow_truncate: true, allow_end_at_pause: false, allow_script_dom: true },
            HProp::C06 => SchedKnobs { allow_inject: true, allow_collect: false, allow_truncate: true, allow_end_at_pause: false, allow_script_dom: false },
            HProp::C08 => SchedKnobs { allow_inject: false, allow_collect: false, allow_truncate: false, allow_end_at_pause: false, allow_script_dom: false },
            HProp::C18 => SchedKnobs { allow_inject: true, allow_collect: true, allow_truncate: true, allow_end_at_pause: false, allow_script_dom: true },
        }
    }

    fn gen_case(&self, rng: &mut Rng, thorough: bool) -> (HtmlCase, Option<String>) {
        let mut flip = None;
        let mut opts = gen_opts(rng);
        let (input, pipeline) = match self.prop {
            HProp::C03 => {
                let mut input = gen_input(rng, thorough);
                if thorough && rng.chance(1, 6) {
                    input = input.chars().take(rng.range(2, 12)).collect();
                    flip = Some("all_2cut".to_string());
                }
                let p = if rng.chance(2, 5) { gen_tok_pipeline(rng, false) } else { gen_tree_pipeline(rng, true, true) };
                (input, p)
            },
            HProp::C04 => {
                let patho = rng.chance(1, 400);
                let input = if patho { gen_pathological(rng, thorough) } else { gen_input(rng, thorough) };
                let p = if rng.chance(1, if patho { 3 } else { 12 }) {
                    // the repository's own sink: deep trees must not overflow the stack in drop / serialize
                    let context = if rng.chance(1, 4) {
                        let (n, l) = *rng.pick(CONTEXTS);
                        Some((n.to_string(), l.to_string()))
                    } else {
                        None
                    };
                    Pipeline::RcDom { context, ctx_scripting: rng.chance(1, 2) }
                } else if rng.chance(2, 5) {
                    gen_tok_pipeline(rng, true)
                } else {
                    gen_tree_pipeline(rng, true, true)
                };
                (input, p)
            },
            HProp::C18 if rng.chance(1, 3) => (gen_gc_input(rng), gen_tree_pipeline(rng, true, true)),
            HProp::C05 if rng.chance(1, 6) => (gen_gc_input(rng), gen_tree_pipeline(rng, true, true)),
            HProp::C05 | HProp::C18 => {
                let mut input = gen_input(rng, thorough);
                if (self.prop == HProp::C18 && rng.chance(2, 3)) || (self.prop == HProp::C05 && rng.chance(1, 3)) {
                    // more script pauses: that is where scripts edit the DOM and collections bite
                    for _ in 0..rng.range(1, 3) {
                        let n = input.chars().count();
                        let at = rng.below(n + 1);
                        let byte = input.char_indices().nth(at).map(|(b, _)| b).unwrap_or(input.len());
                        input.insert_str(byte, rng.pick_str(&["<script>x</script>", "<script></script>", "<svg><script>s</script></svg>", "</script>", "<script>"]));
                    }
                }
                (input, gen_tree_pipeline(rng, true, true))
            },
            HProp::C06 => {
                let mut input = gen_input(rng, thorough);
                if rng.chance(1, 12) {
                    // the body -> frameset replacement is where the skeleton is rebuilt
                    let mut sc = String::new();
                    gen_html::gen_frameset_scenario(rng, &mut sc);
                    if rng.chance(1, 2) {
                        input = sc + &input;
                    } else {
                        input = sc;
                    }
                }
                if rng.chance(1, 20) {
                    // option mirroring writes text into the tree on the sink's side
                    let mut sc = String::new();
                    gen_html::gen_select_scenario(rng, &mut sc);
                    let at = rng.below(input.chars().count() + 1);
                    let byte = input.char_indices().nth(at).map(|(b, _)| b).unwrap_or(input.len());
                    input.insert_str(byte, &sc);
                }
                let p = if rng.chance(1, 5) { Pipeline::RcDom { context: None, ctx_scripting: false } } else { gen_tree_pipeline(rng, false, false) };
                (input, p)
            },
            HProp::C08 => {
                let f = *rng.pick(FLIPS);
                flip = Some(f.to_string());
                let mut input = if matches!(f, "tb_exact_errors" | "exact_errors") && rng.chance(1, 30) {
                    // exact error messages carry a dump of the offending token
                    gen_html::gen_big_unexpected_token(rng)
                } else {
                    gen_input(rng, thorough)
                };
                if f == "discard_bom" && rng.chance(1, 8) {
                    // encoding declarations are suspension points of their own
                    input = gen_meta_input(rng, thorough) + &input;
                }
                if f == "discard_bom" && rng.chance(1, 2) {
                    // a U+FEFF anywhere but first is never dropped: right after tags (where feed()
                    // may have returned in between) and elsewhere
                    for _ in 0..rng.range(1, 3) {
                        let after_gt: Vec<usize> = input.char_indices().filter(|(_, c)| *c == '>').map(|(b, _)| b + 1).collect();
                        let at = if !after_gt.is_empty() && rng.chance(3, 4) {
                            *rng.pick(&after_gt)
                        } else {
                            let n = input.chars().count();
                            let k = rng.below(n + 1);
                            input.char_indices().nth(k).map(|(b, _)| b).unwrap_or(input.len())
                        };
                        input.insert(at, '\u{feff}');
                    }
                }
                if f == "discard_bom" && rng.chance(2, 3) && !input.starts_with('\u{feff}') {
                    input.insert(0, '\u{feff}');
                }
                if f == "drop_doctype" && rng.chance(2, 3) {
                    let mut s = String::new();
                    gen_html::gen_doctype(rng, &mut s);
                    input = s + &input;
                }
                let tree_only = matches!(f, "tb_exact_errors" | "drop_doctype");
                let p = if !tree_only && rng.chance(1, 2) { gen_tok_pipeline(rng, false) } else { gen_tree_pipeline(rng, true, true) };
                (input, p)
            },
            HProp::C09 => {
                let input = if rng.chance(1, 80) {
                    gen_html::gen_scale_input(rng)
                } else if rng.chance(2, 3) {
                    gen_linebreak_input(rng, thorough)
                } else {
                    gen_input(rng, thorough)
                };
                let p = if rng.chance(1, 2) { gen_tok_pipeline(rng, false) } else { gen_tree_pipeline(rng, true, false) };
                (input, p)
            },
            HProp::C19 => {
                let input = gen_meta_input(rng, thorough);
                let p = if rng.chance(1, 4) { gen_tok_pipeline(rng, false) } else { gen_tree_pipeline(rng, true, true) };
                (input, p)
            },
        };
        let mut pipeline = pipeline;
        if matches!(self.prop, HProp::C03 | HProp::C04 | HProp::C05 | HProp::C06) && rng.chance(1, 8) {
            if let Pipeline::Tree { driver, with_form, driver_mode, .. } = &mut pipeline {
                *driver = true;
                *with_form = false;
                *driver_mode = *rng.pick(&[0u8, 0, 1, 2]);
            }
        }
        let _ = &mut opts;
        let mut schedule = gen_schedule(rng, &input, self.knobs());
        if self.prop == HProp::C19 && matches!(pipeline, Pipeline::Tree { .. }) && rng.chance(1, 5) {
            // F11 in C19: a script takes an element out of the document (half of the time one the
            // builder holds: table, tbody, template, head, body …) at one of the first script pauses
            for at in 0..2usize {
                if rng.chance(2, 3) {
                    let remove: Vec<u32> = vec![rng.below(1 << 16) as u32 | if rng.chance(3, 4) { 1 << 16 } else { 0 }];
                    match schedule.pauses.iter_mut().find(|p| p.at == at) {
                        Some(p) => p.remove = remove,
                        None => schedule.pauses.push(crate::schedule::PauseAct { at, deliver_before_resume: 0, inject: None, remove }),
                    }
                }
            }
            schedule.pauses.sort_by_key(|p| p.at);
        }
        if self.prop == HProp::C18 && rng.chance(1, 2) {
            // make the collector bite: the script edits the DOM at the first pauses and a collection
            // follows at every suspension
            for at in 0..3usize {
                let remove: Vec<u32> = (0..rng.range(1, 3)).map(|_| rng.below(1 << 20) as u32).collect();
                match schedule.pauses.iter_mut().find(|p| p.at == at) {
                    Some(p) => {
                        if p.remove.is_empty() {
                            p.remove = remove;
                        }
                    },
                    None => schedule.pauses.push(crate::schedule::PauseAct { at, deliver_before_resume: 0, inject: None, remove }),
                }
            }
            schedule.pauses.sort_by_key(|p| p.at);
            schedule.collect_at = (0..(schedule.cuts.len() + 8).min(64)).collect();
        }
        (HtmlCase { input, opts, pipeline, schedule }, flip)
    }
}

// ------------------------------------------------------------------ helpers

fn first_diff<T: PartialEq + std::fmt::Debug>(a: &[T], b: &[T]) -> String {
    for i in 0..a.len().max(b.len()) {
        if a.get(i) != b.get(i) {
            return format!("index {}: expected {:?}, observed {:?}", i, a.get(i), b.get(i));
        }
    }
    "no difference".into()
}

fn first_line_diff(a: &str, b: &str) -> String {
    let la: Vec<&str> = a.lines().collect();
    let lb: Vec<&str> = b.lines().collect();
    for i in 0..la.len().max(lb.len()) {
        if la.get(i) != lb.get(i) {
            return format!("tree line {}: expected {:?}, observed {:?}", i, la.get(i), lb.get(i));
        }
    }
    "no difference".into()
}

fn reference_case(case: &HtmlCase, logical: &str) -> HtmlCase {
    let mut pipeline = case.pipeline.clone();
    if let Pipeline::Tree { driver_mode, .. } = &mut pipeline {
        // the reference is always the plain use of the driver: process(), then finish()
        *driver_mode = 0;
    }
    HtmlCase { input: logical.to_string(), opts: case.opts.clone(), pipeline, schedule: Schedule::one_piece() }
}

fn tree_nf(sink: &Option<ModelSink>) -> Option<String> {
    sink.as_ref().map(|s| s.dom.borrow().normal_form())
}

fn add_run_stats(stats: &mut Stats, obs: &RunObs) {
    let s = &obs.stats;
    stats.add("events", s.events);
    stats.add("feeds", s.feeds);
    stats.add("F1_chunks_delivered", s.chunks);
    stats.add("F1_empty_chunks", s.empty_chunks);
    stats.add("F2_chunks_delivered_while_suspended", s.delivered_while_suspended);
    stats.add("F3_injections_at_script_pause", s.injections);
    stats.add("F4_truncated_streams", s.truncated);
    stats.add("F4_end_at_pause", s.end_at_pause);
    stats.add("driver_parser_fields_driven_by_hand_then_finish", s.hand_driven_parser);
    stats.add("F15_feeds_followed_by_a_fresh_queue", s.fresh_queues);
    stats.add("F5_collections", s.collections);
    stats.add("F5_nodes_collected", s.collected_nodes);
    stats.add("pauses_script", s.pauses_script);
    if obs.is_driver {
        stats.inc(if obs.sink.is_some() { "runs_through_html5ever_driver" } else { "runs_through_driver_with_RcDom_serialize_drop" });
    }
    stats.add("F11_script_detached_an_element", s.script_removals);
    stats.add("pauses_encoding_indicator", s.pauses_indicator);
    if let Some(sink) = &obs.sink {
        stats.add("probe_foster_parent_insert", sink.stats_foster.get());
        stats.add("probe_reparent_children", sink.stats_reparent.get());
        stats.add("probe_append_before_sibling", sink.stats_before_sibling.get());
        stats.add("probe_add_attrs_if_missing", sink.stats_add_attrs.get());
        stats.add("probe_remove_from_parent", sink.stats_remove.get());
        stats.add("probe_clone_option", sink.stats_clone_option.get());
        stats.add("F6_attach_declarative_shadow_calls", sink.stats_attach_shadow.get());
    }
}

fn boundary_probes(stats: &mut Stats, case: &HtmlCase) {
    let chars: Vec<char> = case.input.chars().collect();
    for &c in &case.schedule.cuts {
        if c == 0 || c >= chars.len() {
            continue;
        }
        let p = chars[c - 1];
        let n = chars[c];
        if p == '\r' {
            stats.inc("probe_boundary_right_after_CR");
            if n == '\n' {
                stats.inc("probe_boundary_between_CR_and_LF");
            }
        }
        if n == '\u{feff}' {
            stats.inc("probe_BOM_first_in_later_chunk");
        }
        // inside a character reference: an '&' within the previous 8 chars with no ';' / space since
        let lo = c.saturating_sub(8);
        if let Some(pos) = chars[lo..c].iter().rposition(|x| *x == '&') {
            if chars[lo + pos..c].iter().all(|x| x.is_ascii_alphanumeric() || *x == '&' || *x == '#') {
                stats.inc("probe_boundary_inside_char_reference");
            }
        }
        let lo = c.saturating_sub(9);
        let window: String = chars[lo..c].iter().collect::<String>().to_ascii_lowercase();
        if window.contains("<!") || window.ends_with("publi") || window.ends_with("syst") || window.ends_with("pub") {
            stats.inc("probe_boundary_inside_eat_keyword_window");
        }
    }
    match case.schedule.repr_name.as_str() {
        "shared-adjacent" | "shared-keep-parent" => stats.inc("F9_shared_buffer_representation_cases"),
        _ => stats.inc("F9_owned_representation_cases"),
    }
    // SIMD stride reachable: a plain run of >= 16 bytes inside one chunk
    let mut run = 0;
    for (i, ch) in chars.iter().enumerate() {
        if case.schedule.cuts.binary_search(&i).is_ok() {
            run = 0;
        }
        if matches!(ch, '<' | '&' | '\r' | '\0') {
            run = 0;
        } else {
            run += ch.len_utf8();
            if run == 16 {
                stats.inc("probe_simd_stride_reachable");
                break;
            }
        }
    }
}

pub fn class_code(c: char) -> u8 {
    match c {
        '\r' => 0,
        '\n' => 1,
        '<' => 2,
        '&' => 3,
        '!' => 4,
        '-' => 5,
        '#' => 6,
        ';' => 7,
        '=' => 8,
        '/' => 9,
        '>' => 10,
        '"' | '\'' => 11,
        '\0' => 12,
        '\u{feff}' => 13,
        c if c.is_ascii_alphabetic() => 14,
        c if c.is_ascii_digit() => 15,
        c if c.is_ascii_whitespace() => 16,
        c if c.is_ascii() => 17,
        _ => 18,
    }
}

/// Boundary contexts (classes of 2 chars before, 2 after each cut), hashed.
pub fn boundary_contexts(input: &str, cuts: &[usize]) -> Vec<u32> {
    let chars: Vec<char> = input.chars().collect();
    let cls = |i: isize| -> u32 {
        if i < 0 || i as usize >= chars.len() {
            19
        } else {
            class_code(chars[i as usize]) as u32
        }
    };
    let mut out = Vec::new();
    for &c in cuts {
        let c = c as isize;
        out.push(cls(c - 2) * 8000 + cls(c - 1) * 400 + cls(c) * 20 + cls(c + 1));
    }
    out
}

// ------------------------------------------------------------------ oracles

fn check_c04(obs: &RunObs) -> Result<(), Violation> {
    if obs.is_driver {
        // the driver hides tokens and suspensions: reaching this point means process()/finish() returned
        return Ok(());
    }
    if obs.stats.livelock != 0 {
        return Err(Violation::new("feed-livelock", format!("feed() was resumed {} times without finishing the delivered input", obs.stats.feeds)));
    }
    if let Some(rest) = &obs.queue_nonempty_after_done {
        return Err(Violation::new(
            "queue-not-empty-after-done",
            format!("feed() returned Done with unread input {:?}", rest.chars().take(40).collect::<String>()),
        ));
    }
    if obs.eof_count != 1 {
        return Err(Violation::new("eof-count", format!("{} EOF tokens delivered (expected exactly 1)", obs.eof_count)));
    }
    if obs.after_eof != 0 {
        return Err(Violation::new("token-after-eof", format!("{} tokens delivered after EOF", obs.after_eof)));
    }
    if obs.end_calls != 1 {
        return Err(Violation::new("sink-end-count", format!("TokenSink::end called {} times", obs.end_calls)));
    }
    Ok(())
}

/// lb[i] = line breaks (LF, CR, CRLF once) in the first i BYTES of s.
fn linebreak_prefix(s: &str) -> Vec<u32> {
    let mut lb = Vec::with_capacity(s.len() + 1);
    lb.push(0u32);
    let mut prev = 0u8;
    for &c in s.as_bytes() {
        let inc = (c == b'\r' || (c == b'\n' && prev != b'\r')) as u32;
        lb.push(lb.last().unwrap() + inc);
        prev = c;
    }
    lb
}

fn check_c09(obs: &RunObs) -> Result<(), Violation> {
    let lb = linebreak_prefix(&obs.logical);
    let total = lb.len() - 1;
    let mut prev_line = 1u64;
    for (i, t) in obs.toks.iter().enumerate() {
        let consumed = if t.in_end { total } else { t.consumed.min(total) };
        let expected = 1 + lb[consumed] as u64;
        if t.ev.is_error() {
            if t.line < prev_line || t.line > expected {
                return Err(Violation::new(
                    "error-token-line-out-of-range",
                    format!("token #{i} {:?}: line {} not in [{}, {}] (consumed {} bytes)", t.ev, t.line, prev_line, expected, consumed),
                ));
            }
        } else if t.line != expected {
            let class = if t.ev == TokEv::Eof { "eof-line-wrong" } else { "token-line-wrong" };
            return Err(Violation::new(
                class,
                format!(
                    "token #{i} {:?}: line {} but the {} consumed bytes contain {} line breaks (expected line {})",
                    t.ev, t.line, consumed, lb[consumed], expected
                ),
            ));
        }
        prev_line = t.line;
    }
    if let Some(m) = &obs.forwarded_line_mismatch {
        return Err(Violation::new("set-current-line-not-forwarded", m.clone()));
    }
    Ok(())
}

fn check_c05(obs: &RunObs) -> Result<(), Violation> {
    if let Some(sink) = &obs.sink {
        if let Some((ord, msg)) = sink.contract_violations.borrow().first() {
            return Err(Violation::new("treesink-contract", format!("sink call #{ord}: {msg}")));
        }
    }
    Ok(())
}

fn is_ws_text(s: &str) -> bool {
    s.chars().all(|c| matches!(c, '\t' | '\n' | '\x0C' | '\r' | ' '))
}

pub fn check_skeleton(sink: &ModelSink, allow_fmt_after_frameset: bool) -> Result<(), Violation> {
    check_skeleton_dom(&sink.dom.borrow(), allow_fmt_after_frameset)
}

pub fn check_skeleton_dom(dom: &crate::model::Dom, allow_fmt_after_frameset: bool) -> Result<(), Violation> {
    let bad = |m: String| Err(Violation::new("skeleton", m));
    // document children
    let mut doctype_seen = 0;
    let mut elems = vec![];
    for (i, &c) in dom.n(0).children.iter().enumerate() {
        match &dom.n(c).kind {
            Kind::Doctype { .. } => {
                doctype_seen += 1;
                for &p in &dom.n(0).children[..i] {
                    if !matches!(dom.n(p).kind, Kind::Comment(_)) {
                        return bad(format!("doctype is preceded by a non-comment node {:?}", dom.n(p).kind));
                    }
                }
            },
            Kind::Element { .. } => elems.push(c),
            Kind::Comment(_) => {},
            Kind::Text(t) => return bad(format!("text {:?} is a child of the document", t)),
            other => return bad(format!("unexpected document child {:?}", other)),
        }
    }
    if doctype_seen > 1 {
        return bad(format!("{doctype_seen} doctype nodes"));
    }
    if elems.len() != 1 || !dom.is_html_elem_named(elems[0], "html") {
        return bad(format!(
            "document has element children {:?} (expected exactly one html)",
            elems.iter().map(|e| dom.local_name(*e).unwrap_or("?").to_string()).collect::<Vec<_>>()
        ));
    }
    let html = elems[0];
    let mut names: Vec<String> = vec![];
    for &c in &dom.n(html).children {
        match &dom.n(c).kind {
            Kind::Element { ns, local, .. } => {
                if *ns != markup5ever::ns!(html) {
                    return bad(format!("html has a non-HTML element child {}", local));
                }
                names.push(local.to_string());
            },
            Kind::Text(t) => {
                if !is_ws_text(t) {
                    return bad(format!("non-whitespace text {:?} is a child of html", t));
                }
            },
            Kind::Comment(_) => {},
            other => return bad(format!("unexpected child of html: {:?}", other)),
        }
    }
    let ok = match names.as_slice() {
        [h, b] if h == "head" && b == "body" => true,
        [h, f, rest @ ..] if h == "head" && f == "frameset" => rest.iter().all(|n| {
            n == "noframes"
                || (allow_fmt_after_frameset
                    && matches!(n.as_str(), "a" | "b" | "big" | "code" | "em" | "font" | "i" | "nobr" | "s" | "small" | "strike" | "strong" | "tt" | "u"))
        }),
        _ => false,
    };
    if !ok {
        return bad(format!("element children of html are {:?}", names));
    }
    // global: reachable nodes only (from the document, through children / template contents)
    let mut stack = vec![0u32];
    while let Some(id) = stack.pop() {
        let n = dom.n(id);
        if !n.children.is_empty() && !matches!(n.kind, Kind::Element { .. } | Kind::Fragment | Kind::Document) {
            return bad(format!("node {:?} has children", n.kind));
        }
        let mut prev_text = false;
        for &c in &n.children {
            let is_text = match &dom.n(c).kind {
                Kind::Text(t) => {
                    if t.is_empty() {
                        return bad("empty text node".into());
                    }
                    true
                },
                _ => false,
            };
            if is_text && prev_text {
                return bad(format!("two adjacent text nodes under {:?}", n.kind));
            }
            prev_text = is_text;
            if dom.n(c).parent != Some(id) {
                return bad(format!("child {} of {} has parent link {:?}", c, id, dom.n(c).parent));
            }
            stack.push(c);
        }
        if let Some(tc) = n.template_contents {
            stack.push(tc);
        }
    }
    Ok(())
}

// ---- C19: independent implementation of the WHATWG meta charset extraction

fn is_ascii_ws(c: char) -> bool {
    matches!(c, '\t' | '\n' | '\x0C' | '\r' | ' ')
}

pub fn extract_charset_from_content(s: &str) -> Option<String> {
    let chars: Vec<char> = s.chars().collect();
    let n = chars.len();
    let mut position = 0usize;
    loop {
        // find "charset" (ASCII case-insensitive) at or after position
        let mut found = None;
        let needle: Vec<char> = "charset".chars().collect();
        let mut i = position;
        while i + 7 <= n {
            if (0..7).all(|k| chars[i + k].to_ascii_lowercase() == needle[k]) {
                found = Some(i);
                break;
            }
            i += 1;
        }
        let start = found?;
        let mut p = start + 7;
        while p < n && is_ascii_ws(chars[p]) {
            p += 1;
        }
        if p >= n || chars[p] != '=' {
            // move position to just before that next character and loop
            position = p;
            if p >= n {
                return None;
            }
            continue;
        }
        p += 1;
        while p < n && is_ascii_ws(chars[p]) {
            p += 1;
        }
        if p >= n {
            return None;
        }
        let c = chars[p];
        if c == '"' || c == '\'' {
            let rest = &chars[p + 1..];
            return rest.iter().position(|x| *x == c).map(|end| rest[..end].iter().collect());
        }
        let mut e = p;
        while e < n && !is_ascii_ws(chars[e]) && chars[e] != ';' {
            e += 1;
        }
        return Some(chars[p..e].iter().collect());
    }
}

thread_local! {
    static C19_EXPECTED: std::cell::Cell<u64> = const { std::cell::Cell::new(0) };
    static C19_FROM_CONTENT: std::cell::Cell<u64> = const { std::cell::Cell::new(0) };
    static C19_META_NO_INDICATOR: std::cell::Cell<u64> = const { std::cell::Cell::new(0) };
    static C19_SPAN_CHECKS: std::cell::Cell<u64> = const { std::cell::Cell::new(0) };
}

/// Case-preserving disguise of the two attribute names that make a meta element declare an
/// encoding (`undo` reverses it).
fn disguise(s: &str, undo: bool) -> String {
    let chars: Vec<char> = s.chars().collect();
    let mut out = chars.clone();
    let pats: [(&str, char, char); 2] = [("charse", 't', 'x'), ("http-equi", 'v', 'x')];
    for (stem, from, to) in pats {
        let (from, to) = if undo { (to, from) } else { (from, to) };
        let st: Vec<char> = stem.chars().collect();
        let n = st.len();
        if chars.len() <= n {
            continue;
        }
        for i in 0..chars.len() - n {
            if (0..n).all(|k| chars[i + k].to_ascii_lowercase() == st[k]) {
                let c = chars[i + n];
                if c == from {
                    out[i + n] = to;
                } else if c == from.to_ascii_uppercase() {
                    out[i + n] = to.to_ascii_uppercase();
                }
            }
        }
    }
    out.into_iter().collect()
}

/// Map both spellings (`…arset` / `…arsex`, `…p-equiv` / `…p-equix`) to one, case-preserving. The
/// stems contain none of the letters that differ (t, v, x), so the two passes cannot disturb each
/// other ("charsetp-equiv" was a false alarm of a version whose second stem began with t).
fn canon_disguise(s: &str) -> String {
    let chars: Vec<char> = s.chars().collect();
    let mut out = chars.clone();
    for (stem, from, to) in [("arse", 't', 'x'), ("p-equi", 'v', 'x')] {
        let st: Vec<char> = stem.chars().collect();
        let n = st.len();
        if chars.len() <= n {
            continue;
        }
        for i in 0..chars.len() - n {
            if (0..n).all(|k| chars[i + k].to_ascii_lowercase() == st[k]) {
                let c = chars[i + n];
                if c == from {
                    out[i + n] = to;
                } else if c == from.to_ascii_uppercase() {
                    out[i + n] = to.to_ascii_uppercase();
                }
            }
        }
    }
    out.into_iter().collect()
}

struct ExpectedIndicator {
    tok_index: usize,
    label: String,
}

fn check_c19_tree(obs: &RunObs) -> Result<(), Violation> {
    let sink = obs.sink.as_ref().unwrap();
    let calls = sink.calls.borrow();
    // token records carry [calls_before, calls_after) ranges through mut_before/mut_after of the
    // dedicated call counter
    let mut expected: Vec<ExpectedIndicator> = vec![];
    let probed = crate::html_stream::PROBE_TOKENS.with(|p| p.get());
    for (ti, t) in obs.toks.iter().enumerate() {
        let (c0, c1) = (t.calls_before as usize, (t.calls_after as usize).min(calls.len()));
        let is_tag = matches!(t.ev, TokEv::Tag { start: true, .. });
        let mut want: Option<String> = None;
        let mut foster_into_detached: Option<(Id, Id)> = None;
        let mut declared_by_charset = false;
        let mut last_mutation_is_insert = false;
        if is_tag {
            let mut meta_id = None;
            let mut attrs_of = vec![];
            for call in &calls[c0..c1] {
                match call {
                    Call::CreateElement { id, ns, local, attrs, .. } if ns == "http://www.w3.org/1999/xhtml" && local == "meta" => {
                        meta_id = Some(*id);
                        attrs_of = attrs.clone();
                        last_mutation_is_insert = false;
                    },
                    Call::Append { node: Some(n), .. } | Call::AppendBefore { node: Some(n), .. } | Call::AppendBasedOnParent { node: Some(n), .. }
                        if Some(*n) == meta_id =>
                    {
                        if let Call::AppendBasedOnParent { element_detached: true, prev_inside_element: true, element, prev, .. } = call {
                            // "the meta element is already in the tree": the table it is foster-parented
                            // around has been taken out of the document (by a script), so it goes to the
                            // element above that table on the stack of open elements — never into the
                            // removed table's own subtree
                            foster_into_detached = Some((*element, *prev));
                        }
                        last_mutation_is_insert = true;
                        let get = |name: &str| attrs_of.iter().find(|a| a.ns.is_empty() && a.local == name).map(|a| a.value.clone());
                        if let Some(cs) = get("charset") {
                            declared_by_charset = true;
                            want = Some(cs);
                        } else if get("http-equiv").map(|v| v.eq_ignore_ascii_case("content-type")).unwrap_or(false) {
                            if let Some(content) = get("content") {
                                want = extract_charset_from_content(&content);
                                if want.is_some() {
                                    C19_FROM_CONTENT.with(|c| c.set(c.get() + 1));
                                } else {
                                    C19_META_NO_INDICATOR.with(|c| c.set(c.get() + 1));
                                }
                            }
                        }
                    },
                    Call::Append { .. }
                    | Call::AppendBefore { .. }
                    | Call::AppendBasedOnParent { .. }
                    | Call::AddAttrs { .. }
                    | Call::Remove { .. }
                    | Call::Reparent { .. }
                    | Call::Doctype { .. }
                    | Call::CreateElement { .. }
                    | Call::CreateComment { .. } => {
                        if meta_id.is_some() && want.is_some() {
                            last_mutation_is_insert = false;
                        }
                    },
                    _ => {},
                }
            }
        }
        match (want, t.answer == ANS_INDICATOR) {
            (Some(label), true) => {
                C19_EXPECTED.with(|c| c.set(c.get() + 1));
                // "for each meta start tag that … carries a charset attribute": the declaring attribute
                // names have to be in the stretch of input this tag token was made from (between the
                // previous token's emission and this one's), not inherited from anywhere else
                if probed && !t.in_end {
                    let start = obs.toks[..ti].iter().rev().find(|p| !matches!(p.ev, TokEv::Error(_))).map(|p| p.consumed).unwrap_or(0);
                    let (mut a, mut b) = (start.min(obs.logical.len()), t.consumed.min(obs.logical.len()));
                    while a > 0 && !obs.logical.is_char_boundary(a) {
                        a -= 1;
                    }
                    while b < obs.logical.len() && !obs.logical.is_char_boundary(b) {
                        b += 1;
                    }
                    if a < b {
                        let span = obs.logical[a..b].to_ascii_lowercase();
                        let names: &[&str] = if declared_by_charset { &["charset"] } else { &["http-equiv", "content"] };
                        C19_SPAN_CHECKS.with(|c| c.set(c.get() + 1));
                        for name in names {
                            if !span.contains(name) {
                                return Err(Violation::new(
                                    "indicator-for-attribute-not-in-tag",
                                    format!("token #{ti} {:?} raised an EncodingIndicator, but the input this tag was read from ({:?}) has no `{name}` attribute", t.ev, span.chars().take(200).collect::<String>()),
                                ));
                            }
                        }
                    }
                }
                if let Some((element, prev)) = foster_into_detached {
                    return Err(Violation::new(
                        "indicator-meta-not-in-tree",
                        format!("token #{ti} {:?}: the meta element was foster-parented around node {element}, which has no parent, and put under node {prev} inside that detached subtree: it is not in the tree when the indicator is returned", t.ev),
                    ));
                }
                if !last_mutation_is_insert {
                    return Err(Violation::new(
                        "indicator-tree-mutated-after-insert",
                        format!("token #{ti} {:?}: the tree was mutated between inserting the meta element and returning the indicator", t.ev),
                    ));
                }
                expected.push(ExpectedIndicator { tok_index: ti, label });
            },
            (Some(label), false) => {
                return Err(Violation::new(
                    "indicator-missing",
                    format!("token #{ti} {:?} inserted an HTML meta declaring {:?} but no EncodingIndicator was raised", t.ev, label),
                ));
            },
            (None, true) => {
                return Err(Violation::new(
                    "indicator-spurious",
                    format!("token #{ti} {:?} raised an EncodingIndicator although no inserted HTML meta element declares an encoding", t.ev),
                ));
            },
            (None, false) => {},
        }
    }
    // feed() results: exactly the expected labels, in order
    let got: Vec<String> = obs
        .feed_results
        .iter()
        .filter_map(|f| if let FeedRes::Indicator(l) = f { Some(l.clone()) } else { None })
        .collect();
    let want: Vec<String> = expected.iter().map(|e| e.label.clone()).collect();
    if got != want {
        let _ = expected.iter().map(|e| e.tok_index).count();
        return Err(Violation::new(
            "indicator-label-sequence",
            format!("feed() returned indicators {:?}, expected {:?}", got, want),
        ));
    }
    Ok(())
}

// ------------------------------------------------------------------ the world

fn compare_runs(reference: &RunObs, observed: &RunObs, compare_errors: bool, compare_pauses: bool) -> Result<(), Violation> {
    let (rt, re) = normal_tokens(&reference.toks);
    let (ot, oe) = normal_tokens(&observed.toks);
    if rt != ot {
        return Err(Violation::new("token-stream-differs", first_diff(&rt, &ot)));
    }
    if compare_errors && re != oe {
        return Err(Violation::new("tokenizer-errors-differ", first_diff(&re, &oe)));
    }
    if let (Some(a), Some(b)) = (tree_nf(&reference.sink), tree_nf(&observed.sink)) {
        if a != b {
            return Err(Violation::new("tree-differs", first_line_diff(&a, &b)));
        }
    }
    if compare_pauses {
        // independent of the reference run: every Script / EncodingIndicator answer of the sink
        // must surface as a suspension of feed() — the two compared runs could both swallow it
        for o in [reference, observed] {
            let ans_script = o.toks.iter().filter(|t| !t.in_end && t.answer == crate::html_stream::ANS_SCRIPT).count();
            let ans_ind = o.toks.iter().filter(|t| !t.in_end && t.answer == crate::html_stream::ANS_INDICATOR).count();
            let p_script = o.pauses.iter().filter(|p| p.kind == FeedRes::Script).count();
            let p_ind = o.pauses.iter().filter(|p| matches!(p.kind, FeedRes::Indicator(_))).count();
            if !o.is_driver && (ans_script != p_script || ans_ind != p_ind) {
                return Err(Violation::new(
                    "sink-answer-did-not-suspend",
                    format!("the sink answered Script {ans_script} time(s) and EncodingIndicator {ans_ind} time(s), but feed() suspended {p_script} / {p_ind} time(s)"),
                ));
            }
        }
        let pr: Vec<_> = reference.pauses.iter().map(|p| (p.kind.clone(), p.consumed, p.nonchar_before, p.handle)).collect();
        let po: Vec<_> = observed.pauses.iter().map(|p| (p.kind.clone(), p.consumed, p.nonchar_before, p.handle)).collect();
        if pr != po {
            return Err(Violation::new("pause-sequence-differs", first_diff(&pr, &po)));
        }
        for p in &observed.pauses {
            if p.char_before != Some('>') {
                return Err(Violation::new(
                    "pause-not-right-after-tag",
                    format!("pause {:?} at offset {} is preceded by {:?}, not '>'", p.kind, p.consumed, p.char_before),
                ));
            }
        }
    }
    Ok(())
}

fn strip_doctype_line(nf: &str) -> String {
    nf.lines().filter(|l| !l.trim_start().starts_with("<!DOCTYPE ")).collect::<Vec<_>>().join("\n")
}

impl HtmlWorld {
    fn run_checked(&self, case: &HtmlCase, flip: &Option<String>, stats: &mut Stats, digest: &mut u64, toggles: &[String]) -> Result<(), Violation> {
        let record = self.prop == HProp::C19;
        // per-token consumption offsets: always in C09; in C19 for one case in four (they tell which
        // stretch of the input a tag token came from), not more, because the measurement touches the queue
        crate::html_stream::PROBE_TOKENS.with(|p| p.set(self.prop == HProp::C09 || (self.prop == HProp::C19 && case.input.len() % 4 == 0)));
        if self.prop == HProp::C08 {
            return self.check_c08(case, flip, stats, digest);
        }
        crate::html_stream::KEEP_RC_TREE.with(|k| k.set(self.prop == HProp::C06));
        let obs = if self.prop == HProp::C03 {
            // a panic under this schedule only (the one-piece run of the same logical stream
            // completes) is a chunking-dependent outcome; a panic in both is totality's business
            match std::panic::catch_unwind(std::panic::AssertUnwindSafe(|| run_html(case, record, false))) {
                Ok(o) => o,
                Err(p) => {
                    let mut plain = case.clone();
                    plain.schedule.pauses.retain(|pa| pa.inject.is_none());
                    let reference = std::panic::catch_unwind(std::panic::AssertUnwindSafe(|| run_html(&reference_case(&plain, &case.input), false, false)));
                    let no_injection = case.schedule.pauses.iter().all(|pa| pa.inject.is_none());
                    if reference.is_ok() && no_injection {
                        return Err(Violation::new("outcome-differs-panic", format!("the scheduled run panics ({}) while the one-piece run completes", crate::world::panic_text(&p).chars().take(300).collect::<String>())));
                    }
                    std::panic::resume_unwind(p)
                },
            }
        } else if self.prop == HProp::C18 && !case.schedule.collect_at.is_empty() {
            // a panic that goes away when the collections are taken out of the schedule is the
            // collector's doing
            match std::panic::catch_unwind(std::panic::AssertUnwindSafe(|| run_html(case, record, false))) {
                Ok(o) => o,
                Err(p) => {
                    let mut c2 = case.clone();
                    c2.schedule.collect_at.clear();
                    if std::panic::catch_unwind(std::panic::AssertUnwindSafe(|| run_html(&c2, false, false))).is_ok() {
                        return Err(Violation::new("panics-only-with-collection", format!("the run with collections panics ({}) while the same run without them completes", crate::world::panic_text(&p).chars().take(300).collect::<String>())));
                    }
                    std::panic::resume_unwind(p)
                },
            }
        } else {
            run_html(case, record, false)
        };
        crate::html_stream::KEEP_RC_TREE.with(|k| k.set(false));
        *digest = obs.digest;
        add_run_stats(stats, &obs);
        match self.prop {
            HProp::C03 => {
                let r = run_html(&reference_case(case, &obs.logical), false, false);
                compare_runs(&r, &obs, true, true)?;
                if flip.as_deref() == Some("all_2cut") {
                    // thorough tier, short inputs: every partition into at most three chunks (a tiny
                    // sub-space enumerated inside the search, not the deciding step)
                    let n = case.input.chars().count();
                    let mut c2 = case.clone();
                    c2.schedule.pauses.retain(|p| p.inject.is_none());
                    let r2 = run_html(&reference_case(&c2, &case.input), false, false);
                    for i in 0..=n {
                        for j in i..=n {
                            c2.schedule.cuts = vec![i, j];
                            let o = run_html(&c2, false, false);
                            stats.inc("all_2cut_partitions_run");
                            compare_runs(&r2, &o, true, true).map_err(|v| Violation::new(&v.class, format!("cuts [{i},{j}]: {}", v.detail)))?;
                        }
                    }
                }
                Ok(())
            },
            HProp::C04 => check_c04(&obs),
            HProp::C05 => check_c05(&obs),
            HProp::C06 if obs.rc_tree.is_some() => {
                // the repository's own sink: the same invariants on the finished RcDom tree
                stats.inc("skeleton_checked_on_rcdom_tree");
                check_skeleton_dom(obs.rc_tree.as_ref().unwrap(), toggles.iter().any(|t| t == "allow_formatting_elements_after_frameset"))
                    .map_err(|v| Violation::new(&v.class, format!("RcDom: {}", v.detail)))
            },
            HProp::C06 => {
                // a truncated stream is still a complete parse of its prefix
                check_skeleton(obs.sink.as_ref().unwrap(), toggles.iter().any(|t| t == "allow_formatting_elements_after_frameset"))
            },
            HProp::C09 => check_c09(&obs),
            HProp::C18 => {
                let sink = obs.sink.as_ref().unwrap();
                if let Some((ord, msg)) = sink.poison_violations.borrow().first() {
                    return Err(Violation::new("collected-node-used", format!("sink call #{ord}: {msg}")));
                }
                // second oracle: same case without collections gives the same tree
                let mut c2 = case.clone();
                c2.schedule.collect_at.clear();
                let o2 = run_html(&c2, false, false);
                let (a, b) = (tree_nf(&o2.sink).unwrap(), tree_nf(&obs.sink).unwrap());
                if a != b {
                    return Err(Violation::new("tree-differs-with-collection", first_line_diff(&a, &b)));
                }
                Ok(())
            },
            HProp::C19 => {
                match &case.pipeline {
                    Pipeline::RcDom { .. } => Ok(()),
                    Pipeline::Tree { .. } => {
                        let r19 = check_c19_tree(&obs);
                        stats.add("probe_indicator_expected_and_raised", C19_EXPECTED.with(|c| c.replace(0)));
                        stats.add("probe_indicator_label_extracted_from_content", C19_FROM_CONTENT.with(|c| c.replace(0)));
                        stats.add("probe_content_type_meta_without_extractable_charset", C19_META_NO_INDICATOR.with(|c| c.replace(0)));
                        stats.add("probe_indicator_attributes_located_in_the_tag_source", C19_SPAN_CHECKS.with(|c| c.replace(0)));
                        r19?;
                        if case.schedule.pauses.iter().any(|p| !p.remove.is_empty()) {
                            // a script edited the DOM (F11): the one-piece reference has no such script,
                            // so only the history check above applies
                            stats.add("F11_script_removed_element", obs.stats.script_removals);
                            return Ok(());
                        }
                        // same indicator sequence and transparent resumption under every schedule
                        let r = run_html(&reference_case(case, &obs.logical), false, false);
                        compare_runs(&r, &obs, false, true)?;
                        // "as if nothing had happened": the same document with the declaring attribute
                        // names disguised (charset -> charsex, http-equiv -> http-equix, same length)
                        // raises no indicator; after undoing the disguise in the result the trees must agree
                        if obs.stats.pauses_indicator > 0 {
                            let lower = case.input.to_ascii_lowercase();
                            if !lower.contains("charsex") && !lower.contains("http-equix") {
                                let mut a = case.clone();
                                a.schedule.pauses.clear();
                                let mut b = a.clone();
                                b.input = disguise(&case.input, false);
                                let oa = run_html(&a, false, false);
                                let ob = run_html(&b, false, false);
                                stats.inc("probe_indicator_transparency_comparisons");
                                if ob.stats.pauses_indicator == 0 {
                                    // both trees are compared with the disguised letter canonicalised: the
                                    // first character of the name may have been eaten by the markup
                                    // before it (`&#xcharset` is U+000C followed by "harset")
                                    let ta = canon_disguise(&tree_nf(&oa.sink).unwrap_or_default());
                                    let tb = canon_disguise(&tree_nf(&ob.sink).unwrap_or_default());
                                    if ta != tb {
                                        return Err(Violation::new(
                                            "indicator-resumption-not-transparent",
                                            format!("tree with the indicator suspension vs. tree of the same document without it: {}", first_line_diff(&tb, &ta)),
                                        ));
                                    }
                                }
                            }
                        }
                        Ok(())
                    },
                    Pipeline::Tok { policy, initial_state, last_start_tag } => {
                        // token stream unchanged when the sink answers Continue instead of EncodingIndicator
                        // pause actions are keyed by pause ordinal, which shifts once indicator
                        // pauses disappear: compare with the actions removed in both runs
                        let mut c1 = case.clone();
                        c1.schedule.pauses.clear();
                        let obs = run_html(&c1, false, false);
                        let mut c2 = c1.clone();
                        c2.pipeline = Pipeline::Tok {
                            policy: *policy | SUPPRESS_INDICATOR_BIT,
                            initial_state: initial_state.clone(),
                            last_start_tag: last_start_tag.clone(),
                        };
                        let o2 = run_html(&c2, false, false);
                        let (a, ae) = normal_tokens(&o2.toks);
                        let (b, be) = normal_tokens(&obs.toks);
                        if a != b {
                            return Err(Violation::new("indicator-resumption-not-transparent", first_diff(&a, &b)));
                        }
                        if ae != be {
                            return Err(Violation::new("indicator-resumption-not-transparent", first_diff(&ae, &be)));
                        }
                        Ok(())
                    },
                }
            },
            HProp::C08 => unreachable!(),
        }
    }

    fn check_c08(&self, case: &HtmlCase, flip: &Option<String>, stats: &mut Stats, digest: &mut u64) -> Result<(), Violation> {
        let f = flip.clone().unwrap_or_else(|| "exact_errors".into());
        let mut a = case.clone();
        let mut b = case.clone();
        match f.as_str() {
            "exact_errors" => {
                a.opts.exact_errors = false;
                b.opts.exact_errors = true;
            },
            "profile" => {
                a.opts.profile = false;
                b.opts.profile = true;
            },
            "tb_exact_errors" => {
                a.opts.tb_exact_errors = false;
                b.opts.tb_exact_errors = true;
            },
            "discard_bom" => {
                a.opts.discard_bom = false;
                b.opts.discard_bom = true;
                if let Some(rest) = case.input.strip_prefix('\u{feff}') {
                    // run(true, x) == run(false, x without its leading U+FEFF), cuts shifted by one
                    a.input = rest.to_string();
                    a.schedule.cuts = case.schedule.cuts.iter().map(|c| c.saturating_sub(1)).collect();
                }
            },
            "drop_doctype" => {
                a.opts.drop_doctype = false;
                b.opts.drop_doctype = true;
            },
            _ => {},
        }
        let (oa, ob) = crate::world::run_pair(&format!("the run with {f}=false"), &format!("the run with {f}=true"), || run_html(&a, false, false), || run_html(&b, false, false))
            .map_err(|v| Violation::new("option-changes-outcome", format!("flip {}: {}", f, v.detail)))?;
        *digest = ob.digest;
        add_run_stats(stats, &ob);
        if f == "drop_doctype" {
            let (ta, tb) = (tree_nf(&oa.sink).unwrap_or_default(), tree_nf(&ob.sink).unwrap_or_default());
            if tb.lines().any(|l| l.trim_start().starts_with("<!DOCTYPE ")) {
                return Err(Violation::new("doctype-not-dropped", "drop_doctype=true but a doctype node is in the tree".into()));
            }
            if strip_doctype_line(&ta) != strip_doctype_line(&tb) {
                return Err(Violation::new("option-changes-tree", format!("flip drop_doctype: {}", first_line_diff(&strip_doctype_line(&ta), &strip_doctype_line(&tb)))));
            }
            let (rt, _) = normal_tokens(&oa.toks);
            let (ot, _) = normal_tokens(&ob.toks);
            if rt != ot {
                return Err(Violation::new("option-changes-tokens", format!("flip drop_doctype: {}", first_diff(&rt, &ot))));
            }
            return Ok(());
        }
        // pauses: offsets differ by one in the BOM case; compare kinds and token positions only
        let cmp = compare_runs(&oa, &ob, false, false);
        if let Err(v) = cmp {
            let class = if v.class == "tree-differs" { "option-changes-tree" } else { "option-changes-tokens" };
            return Err(Violation::new(class, format!("flip {}: {}", f, v.detail)));
        }
        let pa: Vec<_> = oa.pauses.iter().map(|p| (p.kind.clone(), p.nonchar_before, p.handle)).collect();
        let pb: Vec<_> = ob.pauses.iter().map(|p| (p.kind.clone(), p.nonchar_before, p.handle)).collect();
        if pa != pb {
            return Err(Violation::new("option-changes-pauses", format!("flip {}: {}", f, first_diff(&pa, &pb))));
        }
        Ok(())
    }

    fn parse(&self, v: &Value) -> (HtmlCase, Option<String>) {
        (HtmlCase::from_json(v), v["flip"].as_str().map(|s| s.to_string()))
    }

    fn emit(&self, case: &HtmlCase, flip: &Option<String>) -> Value {
        let mut v = case.to_json();
        if let Some(f) = flip {
            v["flip"] = json!(f);
        }
        v
    }
}

pub const SUPPRESS_INDICATOR_BIT: u64 = SUPPRESS_BIT;

fn case_candidates(c: &HtmlCase) -> Vec<HtmlCase> {
    let mut out = vec![];
    // schedule first: it is the cheapest to simplify
    let s = &c.schedule;
    if !s.collect_at.is_empty() {
        let mut n = c.clone();
        n.schedule.collect_at.clear();
        out.push(n);
        if s.collect_at.len() > 1 {
            for i in 0..s.collect_at.len().min(32) {
                let mut n = c.clone();
                n.schedule.collect_at.remove(i);
                out.push(n);
            }
        }
    }
    if !s.pauses.is_empty() {
        let mut n = c.clone();
        n.schedule.pauses.clear();
        out.push(n);
        for i in 0..s.pauses.len() {
            let mut n = c.clone();
            n.schedule.pauses.remove(i);
            out.push(n);
            if s.pauses[i].inject.is_some() {
                let mut n = c.clone();
                n.schedule.pauses[i].inject = None;
                out.push(n);
                let mut n = c.clone();
                n.schedule.pauses[i].inject = Some("x".into());
                out.push(n);
            }
            if !s.pauses[i].remove.is_empty() {
                let mut n = c.clone();
                n.schedule.pauses[i].remove.clear();
                out.push(n);
                if s.pauses[i].remove.len() > 1 {
                    let mut n = c.clone();
                    n.schedule.pauses[i].remove.pop();
                    out.push(n);
                }
            }
            if s.pauses[i].deliver_before_resume > 0 {
                let mut n = c.clone();
                n.schedule.pauses[i].deliver_before_resume = 0;
                out.push(n);
            }
        }
    }
    if s.fresh_queue {
        let mut n = c.clone();
        n.schedule.fresh_queue = false;
        out.push(n);
    }
    if s.truncate_at.is_some() {
        let mut n = c.clone();
        n.schedule.truncate_at = None;
        out.push(n);
    }
    if s.end_at_pause.is_some() {
        let mut n = c.clone();
        n.schedule.end_at_pause = None;
        out.push(n);
    }
    if s.repr_name != "owned" {
        let mut n = c.clone();
        n.schedule.repr_name = "owned".into();
        out.push(n);
    }
    if !s.cuts.is_empty() {
        let mut n = c.clone();
        n.schedule.cuts.clear();
        out.push(n);
        let len = s.cuts.len();
        if len > 1 {
            let mut n = c.clone();
            n.schedule.cuts.truncate(len / 2);
            out.push(n);
            let mut n = c.clone();
            n.schedule.cuts.drain(..len / 2);
            out.push(n);
        }
        if len <= 64 {
            for i in 0..len {
                let mut n = c.clone();
                n.schedule.cuts.remove(i);
                out.push(n);
            }
        } else {
            for k in 0..64 {
                let i = k * len / 64;
                let mut n = c.clone();
                let hi = ((k + 1) * len / 64).min(len);
                n.schedule.cuts.drain(i..hi);
                out.push(n);
            }
        }
    }
    // options back to default
    let d = Opts::default();
    macro_rules! opt_default {
        ($f:ident) => {
            if c.opts.$f != d.$f {
                let mut n = c.clone();
                n.opts.$f = d.$f;
                out.push(n);
            }
        };
    }
    opt_default!(exact_errors);
    opt_default!(discard_bom);
    opt_default!(profile);
    opt_default!(tb_exact_errors);
    opt_default!(scripting);
    opt_default!(iframe_srcdoc);
    opt_default!(drop_doctype);
    opt_default!(quirks);
    match &c.pipeline {
        Pipeline::Tok { policy, initial_state, last_start_tag } => {
            if *policy != 0 {
                let mut n = c.clone();
                n.pipeline = Pipeline::Tok { policy: 0, initial_state: initial_state.clone(), last_start_tag: last_start_tag.clone() };
                out.push(n);
            }
            if initial_state.is_some() {
                let mut n = c.clone();
                n.pipeline = Pipeline::Tok { policy: *policy, initial_state: None, last_start_tag: last_start_tag.clone() };
                out.push(n);
            }
            if last_start_tag.is_some() {
                let mut n = c.clone();
                n.pipeline = Pipeline::Tok { policy: *policy, initial_state: initial_state.clone(), last_start_tag: None };
                out.push(n);
            }
        },
        Pipeline::RcDom { context, ctx_scripting } => {
            if context.is_some() {
                let mut n = c.clone();
                n.pipeline = Pipeline::RcDom { context: None, ctx_scripting: *ctx_scripting };
                out.push(n);
            }
        },
        Pipeline::Tree { context, ctx_scripting, attach_ok, allow_shadow, driver, with_form, driver_mode } => {
            let mk = |context: Option<(String, String)>, attach_ok: bool, allow_shadow: bool, with_form: bool| Pipeline::Tree {
                context,
                ctx_scripting: *ctx_scripting,
                attach_ok,
                allow_shadow,
                driver: *driver,
                with_form,
                driver_mode: *driver_mode,
            };
            if *driver_mode != 0 {
                let mut n = c.clone();
                if let Pipeline::Tree { driver_mode, .. } = &mut n.pipeline {
                    *driver_mode = 0;
                }
                out.push(n);
            }
            if context.is_some() {
                let mut n = c.clone();
                n.pipeline = mk(None, *attach_ok, *allow_shadow, false);
                out.push(n);
            }
            if *with_form {
                let mut n = c.clone();
                n.pipeline = mk(context.clone(), *attach_ok, *allow_shadow, false);
                out.push(n);
            }
            if *attach_ok {
                let mut n = c.clone();
                n.pipeline = mk(context.clone(), false, *allow_shadow, *with_form);
                out.push(n);
            }
            if !*allow_shadow {
                let mut n = c.clone();
                n.pipeline = mk(context.clone(), *attach_ok, true, *with_form);
                out.push(n);
            }
        },
    }
    // input
    for (s2, start, len) in string_candidates(&c.input) {
        let mut n = c.clone();
        n.input = s2;
        if len > 0 {
            n.schedule.cuts = c
                .schedule
                .cuts
                .iter()
                .map(|&k| if k <= start { k } else if k >= start + len { k - len } else { start })
                .collect();
            if let Some(t) = c.schedule.truncate_at {
                n.schedule.truncate_at = Some(if t <= start { t } else if t >= start + len { t - len } else { start });
            }
        }
        out.push(n);
    }
    out
}

impl World for HtmlWorld {
    fn property(&self) -> &'static str {
        self.prop.id()
    }
    fn world_name(&self) -> &'static str {
        "html-stream"
    }

    fn gen(&self, rng: &mut Rng, thorough: bool) -> Value {
        let (c, flip) = self.gen_case(rng, thorough);
        self.emit(&c, &flip)
    }

    fn check(&self, v: &Value, stats: &mut Stats, toggles: &[String]) -> (CaseInfo, Result<(), Violation>) {
        let (case, flip) = self.parse(v);
        boundary_probes(stats, &case);
        let key = mix(fnv1a(case.input.as_bytes()), mix(case.schedule.key(), fnv1a(format!("{:?}{:?}{:?}", case.pipeline, case.opts, flip).as_bytes())));
        let nontrivial = !case.input.is_empty() && (!case.schedule.is_trivial() || self.prop == HProp::C08);
        for c in boundary_contexts(&case.input, &case.schedule.cuts) {
            stats.set_insert("boundary_contexts", c as u64);
        }
        let mut digest = 0u64;
        let res = self.run_checked(&case, &flip, stats, &mut digest, toggles);
        if let Err(v) = &res {
            digest = mix(digest, fnv1a(v.class.as_bytes()));
        }
        (CaseInfo { key, nontrivial, digest }, res)
    }

    fn minimise(&self, v: &Value, class: &str, budget: usize, toggles: &[String]) -> Value {
        let (case, flip) = self.parse(v);
        let mut fails = |c: &HtmlCase| -> bool {
            let mut st = Stats::default();
            let mut dg = 0u64;
            let r = std::panic::catch_unwind(std::panic::AssertUnwindSafe(|| self.run_checked(c, &flip, &mut st, &mut dg, toggles)));
            match r {
                Ok(Err(v)) => v.class == class,
                Ok(Ok(())) => false,
                Err(_) => class == "panic",
            }
        };
        let m = greedy_min(case, &case_candidates, &mut fails, budget);
        self.emit(&m, &flip)
    }

    fn shrink_candidates(&self, v: &Value) -> Vec<Value> {
        let (case, flip) = self.parse(v);
        case_candidates(&case).iter().map(|c| self.emit(c, &flip)).collect()
    }
    fn rule(&self) -> String {
        "case = (grammar-generated malformed HTML input — one in 250 from the scale family (sizes and counts next to 2^k, k=5..17), scenario generators for select / frameset / foreign namesakes / identical formatting elements — options, pipeline {tokenizer+policy sink | tokenizer+tree builder+model DOM, document or fragment context incl. context elements from other vocabularies; through html5ever::driver in one case in eight, half of those with the Parser's public fields driven by hand before finish()}, one schedule of chunk cuts / buffer representation / pause actions / collections / truncation) drawn from the case's own PRNG stream; a case is non-trivial when the input is non-empty and the schedule has at least one interior cut or fault event (for C08: always, the option flip is the variation); distinct = distinct hash of (input, schedule, pipeline, options)".into()
    }

    fn components(&self) -> Value {
        json!({
            "real": ["html5ever::tokenizer::Tokenizer", "html5ever::tokenizer::char_ref", "html5ever::tree_builder::TreeBuilder (all rules)", "markup5ever::buffer_queue::BufferQueue", "tendril::StrTendril (all buffer representations)", "markup5ever::interface::create_element"],
            "stub": ["Source (chunk delivery)", "Embedder (pause/resume loop, stands in for Servo's ServoParser)", "Script (document.write via push_front)", "Collector (trace_handles + reachability)", "ModelSink (TreeSink: abstract DOM + contract monitor)", "PolicySink (TokenSink answering from token history)"]
        })
    }

    fn reports_panics(&self) -> bool {
        self.prop == HProp::C04
    }

    fn expected_probes(&self) -> Vec<&'static str> {
        let mut v = vec!["F1_chunks_delivered", "probe_boundary_right_after_CR", "probe_boundary_inside_char_reference", "probe_simd_stride_reachable"];
        if self.prop != HProp::C08 {
            v.push("pauses_script");
        }
        if matches!(self.prop, HProp::C18 | HProp::C05 | HProp::C04) {
            v.push("F5_collections");
            v.push("F5_nodes_collected");
        }
        if matches!(self.prop, HProp::C03 | HProp::C09 | HProp::C19 | HProp::C05 | HProp::C18) {
            v.push("F3_injections_at_script_pause");
        }
        if self.prop == HProp::C19 {
            v.push("pauses_encoding_indicator");
        }
        v
    }

    fn assumptions(&self) -> Vec<String> {
        vec![
            "seeded search: a clean batch is evidence, not proof".into(),
            "x86-64 host: SSE2 and scalar paths run, NEON path does not".into(),
            "ModelSink implements the TreeSink documentation literally; sinks with other semantics are out of scope".into(),
        ]
    }
}

pub fn size_hint(_s: SizeClass) {}
