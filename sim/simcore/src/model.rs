//! Abstract DOM model + monitoring `TreeSink` (`ModelSink`).
//!
//! The model implements every `TreeSink` method from the trait documentation
//! alone.  Before a call is applied the C05 predicates are evaluated; at
//! suspension points the collector (C18) poisons unreachable nodes.
//! Everything here is iterative: deep trees must not overflow the harness.

use std::borrow::Cow;
use std::cell::{Cell, RefCell};
use std::rc::Rc;

use markup5ever::interface::tree_builder::{ElemName, ElementFlags, NodeOrText, QuirksMode, TreeSink};
use markup5ever::{local_name, ns, Attribute, LocalName, Namespace, QualName};
use tendril::StrTendril;

use crate::probe::Probe;
use crate::rng::{fnv1a, mix};

pub type Id = u32;

#[derive(Clone, Debug, PartialEq, Eq)]
pub struct MAttr {
    pub prefix: Option<String>,
    pub ns: String,
    pub local: String,
    pub value: String,
}

#[derive(Clone, Debug, PartialEq, Eq)]
pub enum Kind {
    Document,
    Fragment,
    Doctype { name: String, public_id: String, system_id: String },
    Text(String),
    Comment(String),
    Pi { target: String, data: String },
    Element { prefix: Option<String>, ns: Namespace, local: LocalName, attrs: Vec<MAttr>, template: bool, mathml_ip: bool, dup_attrs: bool },
}

#[derive(Clone, Debug)]
pub struct Node {
    pub kind: Kind,
    pub parent: Option<Id>,
    pub children: Vec<Id>,
    pub template_contents: Option<Id>,
    /// for template-contents fragments: the template element that owns them
    pub host: Option<Id>,
    /// template contents attached as declarative shadow root of this element
    pub shadow: Option<Id>,
    pub poisoned: bool,
    pub script_started: bool,
}

#[derive(Clone, Debug, Default)]
pub struct Dom {
    pub nodes: Vec<Node>,
    pub quirks: Option<QuirksMode>,
}

pub fn attr_to_m(a: &Attribute) -> MAttr {
    MAttr {
        prefix: a.name.prefix.as_ref().map(|p| p.to_string()),
        ns: a.name.ns.to_string(),
        local: a.name.local.to_string(),
        value: a.value.to_string(),
    }
}

impl Dom {
    pub fn new() -> Dom {
        let mut d = Dom { nodes: vec![], quirks: None };
        d.new_node(Kind::Document);
        d
    }

    pub fn new_node(&mut self, kind: Kind) -> Id {
        let id = self.nodes.len() as Id;
        self.nodes.push(Node {
            kind,
            parent: None,
            children: vec![],
            template_contents: None,
            host: None,
            shadow: None,
            poisoned: false,
            script_started: false,
        });
        id
    }

    pub fn n(&self, id: Id) -> &Node {
        &self.nodes[id as usize]
    }
    pub fn nm(&mut self, id: Id) -> &mut Node {
        &mut self.nodes[id as usize]
    }

    pub fn is_element(&self, id: Id) -> bool {
        matches!(self.n(id).kind, Kind::Element { .. })
    }
    pub fn is_text(&self, id: Id) -> bool {
        matches!(self.n(id).kind, Kind::Text(_))
    }
    pub fn is_html_elem_named(&self, id: Id, name: &str) -> bool {
        match &self.n(id).kind {
            Kind::Element { ns, local, .. } => *ns == ns!(html) && &**local == name,
            _ => false,
        }
    }
    pub fn local_name(&self, id: Id) -> Option<&str> {
        match &self.n(id).kind {
            Kind::Element { local, .. } => Some(&**local),
            _ => None,
        }
    }

    /// Is `anc` equal to `node` or an ancestor of it (following parent links and,
    /// from template contents, the owning template)?
    pub fn is_inclusive_ancestor(&self, anc: Id, node: Id) -> bool {
        let mut cur = Some(node);
        let mut steps = 0usize;
        while let Some(c) = cur {
            if c == anc {
                return true;
            }
            steps += 1;
            if steps > self.nodes.len() + 1 {
                return true; // a cycle already exists
            }
            let n = self.n(c);
            cur = n.parent.or(n.host);
        }
        false
    }

    pub fn detach(&mut self, id: Id) {
        if let Some(p) = self.n(id).parent {
            let ch = &mut self.nm(p).children;
            if let Some(pos) = ch.iter().position(|c| *c == id) {
                ch.remove(pos);
            }
            self.nm(id).parent = None;
        }
    }

    pub fn append_node(&mut self, parent: Id, child: Id) {
        self.nm(child).parent = Some(parent);
        self.nm(parent).children.push(child);
    }

    pub fn append_text(&mut self, parent: Id, text: &str) {
        if let Some(&last) = self.n(parent).children.last() {
            if let Kind::Text(ref mut s) = self.nm(last).kind {
                s.push_str(text);
                return;
            }
        }
        let t = self.new_node(Kind::Text(text.to_string()));
        self.append_node(parent, t);
    }

    pub fn insert_before(&mut self, sibling: Id, child: NodeOrTextM) {
        let parent = match self.n(sibling).parent {
            Some(p) => p,
            None => return,
        };
        match child {
            NodeOrTextM::Text(text) => {
                let pos = self.n(parent).children.iter().position(|c| *c == sibling).unwrap();
                if pos > 0 {
                    let prev = self.n(parent).children[pos - 1];
                    if let Kind::Text(ref mut s) = self.nm(prev).kind {
                        s.push_str(&text);
                        return;
                    }
                }
                let t = self.new_node(Kind::Text(text));
                self.nm(t).parent = Some(parent);
                self.nm(parent).children.insert(pos, t);
            },
            NodeOrTextM::Node(node) => {
                // NB: `new_node` may have an old parent, from which it should be removed.
                self.detach(node);
                let pos = self.n(parent).children.iter().position(|c| *c == sibling).unwrap();
                self.nm(node).parent = Some(parent);
                self.nm(parent).children.insert(pos, node);
            },
        }
    }

    pub fn reparent_children(&mut self, node: Id, new_parent: Id) {
        let kids = std::mem::take(&mut self.nm(node).children);
        for k in &kids {
            self.nm(*k).parent = Some(new_parent);
        }
        self.nm(new_parent).children.extend(kids);
    }

    pub fn add_attrs_if_missing(&mut self, target: Id, attrs: Vec<MAttr>) {
        if let Kind::Element { attrs: ref mut existing, .. } = self.nm(target).kind {
            let names: Vec<(Option<String>, String, String)> =
                existing.iter().map(|a| (a.prefix.clone(), a.ns.clone(), a.local.clone())).collect();
            for a in attrs {
                let key = (a.prefix.clone(), a.ns.clone(), a.local.clone());
                if !names.contains(&key) {
                    existing.push(a);
                }
            }
        }
    }

    /// Deep copy of `src` (iterative), children included, template contents included.
    pub fn deep_clone(&mut self, src: Id) -> Id {
        // (source, clone) work list
        let root_clone = self.shallow_clone(src);
        let mut work = vec![(src, root_clone)];
        while let Some((s, c)) = work.pop() {
            let kids = self.n(s).children.clone();
            for k in kids {
                let kc = self.shallow_clone(k);
                self.nm(kc).parent = Some(c);
                self.nm(c).children.push(kc);
                work.push((k, kc));
            }
            if let Some(tc) = self.n(s).template_contents {
                let tcc = self.shallow_clone(tc);
                self.nm(tcc).host = Some(c);
                self.nm(c).template_contents = Some(tcc);
                work.push((tc, tcc));
            }
        }
        root_clone
    }

    fn shallow_clone(&mut self, src: Id) -> Id {
        let kind = self.n(src).kind.clone();
        self.new_node(kind)
    }

    /// "option element nearest ancestor select"
    pub fn nearest_ancestor_select(&self, option: Id) -> Option<Id> {
        let mut seen_optgroup = false;
        let mut cur = self.n(option).parent;
        while let Some(c) = cur {
            if let Some(l) = self.local_name(c) {
                if matches!(l, "datalist" | "hr" | "option") {
                    return None;
                }
                if l == "optgroup" {
                    if seen_optgroup {
                        return None;
                    }
                    seen_optgroup = true;
                }
                if l == "select" {
                    return Some(c);
                }
            }
            cur = self.n(c).parent;
        }
        None
    }

    /// First `selectedcontent` element descendant in tree order, unless `multiple`.
    pub fn enabled_selectedcontent(&self, select: Id) -> Option<Id> {
        if let Kind::Element { attrs, .. } = &self.n(select).kind {
            if attrs.iter().any(|a| a.local == "multiple") {
                return None;
            }
        }
        let mut stack: Vec<Id> = self.n(select).children.iter().rev().cloned().collect();
        while let Some(c) = stack.pop() {
            if self.local_name(c) == Some("selectedcontent") {
                return Some(c);
            }
            for k in self.n(c).children.iter().rev() {
                stack.push(*k);
            }
        }
        None
    }

    pub fn maybe_clone_option(&mut self, option: Id, emulate_never_mirror: bool) {
        if emulate_never_mirror {
            return;
        }
        let select = match self.nearest_ancestor_select(option) {
            Some(s) => s,
            None => return,
        };
        let sc = match self.enabled_selectedcontent(select) {
            Some(s) => s,
            None => return,
        };
        let selected = match &self.n(option).kind {
            Kind::Element { attrs, .. } => attrs.iter().any(|a| a.local == "selected"),
            _ => false,
        };
        if !selected {
            return;
        }
        // 1-2. clone option's children into a fragment first (selectedcontent itself may be one of
        // the descendants being cloned) ...
        let kids = self.n(option).children.clone();
        let clones: Vec<Id> = kids.into_iter().map(|k| self.deep_clone(k)).collect();
        // 3. ... then replace all within selectedcontent
        let old = std::mem::take(&mut self.nm(sc).children);
        for o in old {
            self.nm(o).parent = None;
        }
        for c in clones {
            self.nm(c).parent = Some(sc);
            self.nm(sc).children.push(c);
        }
    }

    /// Tree normal form: preorder listing, iterative.
    pub fn normal_form(&self) -> String {
        let mut out = String::new();
        match self.quirks {
            Some(QuirksMode::Quirks) => out.push_str("#quirks=quirks\n"),
            Some(QuirksMode::LimitedQuirks) => out.push_str("#quirks=limited\n"),
            Some(QuirksMode::NoQuirks) => out.push_str("#quirks=no\n"),
            None => out.push_str("#quirks=unset\n"),
        }
        self.dump_subtree(0, &mut out);
        out
    }

    pub fn dump_subtree(&self, root: Id, out: &mut String) {
        enum Item {
            Node(Id, usize),
            Label(&'static str, usize),
        }
        let mut stack = vec![Item::Node(root, 0)];
        while let Some(it) = stack.pop() {
            match it {
                Item::Label(l, d) => {
                    for _ in 0..d {
                        out.push(' ');
                    }
                    out.push_str(l);
                    out.push('\n');
                },
                Item::Node(id, d) => {
                    for _ in 0..d {
                        out.push(' ');
                    }
                    let n = self.n(id);
                    match &n.kind {
                        Kind::Document => out.push_str("#document"),
                        Kind::Fragment => out.push_str("#fragment"),
                        Kind::Doctype { name, public_id, system_id } => {
                            out.push_str(&format!("<!DOCTYPE {:?} {:?} {:?}>", name, public_id, system_id))
                        },
                        Kind::Text(s) => out.push_str(&format!("\"{}\"", s.escape_debug())),
                        Kind::Comment(s) => out.push_str(&format!("<!--{}-->", s.escape_debug())),
                        Kind::Pi { target, data } => {
                            out.push_str(&format!("<?{} {}?>", target.escape_debug(), data.escape_debug()))
                        },
                        Kind::Element { prefix, ns, local, attrs, dup_attrs, mathml_ip, .. } => {
                            out.push('<');
                            if let Some(p) = prefix {
                                out.push_str(&format!("{}:", p.escape_debug()));
                            }
                            out.push_str(&format!("{{{}}}{}", ns_short(ns), local.escape_debug()));
                            for a in attrs {
                                out.push(' ');
                                if let Some(p) = &a.prefix {
                                    out.push_str(&format!("{}:", p.escape_debug()));
                                }
                                out.push_str(&format!(
                                    "{{{}}}{}=\"{}\"",
                                    a.ns.escape_debug(),
                                    a.local.escape_debug(),
                                    a.value.escape_debug()
                                ));
                            }
                            if *dup_attrs {
                                out.push_str(" #dup");
                            }
                            if *mathml_ip {
                                out.push_str(" #ip");
                            }
                            if n.script_started {
                                out.push_str(" #started");
                            }
                            out.push('>');
                        },
                    }
                    out.push('\n');
                    // push in reverse so that output is in order
                    for k in n.children.iter().rev() {
                        stack.push(Item::Node(*k, d + 1));
                    }
                    if let Some(tc) = n.template_contents {
                        stack.push(Item::Node(tc, d + 1));
                        stack.push(Item::Label("#template-contents", d + 1));
                    }
                    if let Some(sh) = n.shadow {
                        stack.push(Item::Node(sh, d + 1));
                        stack.push(Item::Label("#shadow-root", d + 1));
                    }
                },
            }
        }
    }
}

fn ns_short(ns: &Namespace) -> &str {
    if *ns == ns!(html) {
        "html"
    } else if *ns == ns!(svg) {
        "svg"
    } else if *ns == ns!(mathml) {
        "math"
    } else {
        &**ns
    }
}

pub enum NodeOrTextM {
    Node(Id),
    Text(String),
}

/// Handle given to the tree builder.
#[derive(Clone, Debug, PartialEq, Eq)]
pub struct H(pub Id);

#[derive(Debug, Clone)]
pub struct OwnedName {
    pub ns: Namespace,
    pub local: LocalName,
}

impl ElemName for OwnedName {
    fn ns(&self) -> &Namespace {
        &self.ns
    }
    fn local_name(&self) -> &LocalName {
        &self.local
    }
}

/// Abstract record of a sink call (used for the event log digest, C19 and C20).
#[derive(Clone, Debug, PartialEq, Eq)]
pub enum Call {
    CreateElement { id: Id, ns: String, local: String, attrs: Vec<MAttr>, template: bool },
    CreateComment { id: Id, text: String },
    CreatePi { id: Id, target: String, data: String },
    Append { parent: Id, node: Option<Id>, text: Option<String> },
    AppendBasedOnParent { element: Id, prev: Id, node: Option<Id>, text: Option<String>, element_detached: bool, prev_inside_element: bool },
    AppendBefore { sibling: Id, node: Option<Id>, text: Option<String> },
    Doctype { name: String, public_id: String, system_id: String },
    AddAttrs { target: Id, attrs: Vec<MAttr> },
    Remove { target: Id },
    Reparent { node: Id, new_parent: Id },
    Pop { node: Id },
    MarkScript { node: Id },
    Quirks(u8),
    Associate { target: Id, form: Id, n0: Id, n1: Option<Id> },
    AttachShadow { location: Id, template: Id, ok: bool },
    CloneOption { option: Id },
    GetTemplateContents { target: Id },
}

#[derive(Clone, Debug, Default)]
pub struct SinkPolicy {
    /// attach_declarative_shadow answer
    pub attach_ok: bool,
    /// allow_declarative_shadow_roots answer
    pub allow_shadow: bool,
    /// record full call history (C19/C20); otherwise only a digest is kept
    pub record_calls: bool,
    /// emulate RcDom's "never mirrors" in option cloning (known-finding toggle, C20)
    pub emulate_never_mirror: bool,
}

pub struct ModelSink {
    pub dom: RefCell<Dom>,
    pub policy: SinkPolicy,
    pub probe: Option<Rc<Probe>>,
    /// C05 violations: (call ordinal, description)
    pub contract_violations: RefCell<Vec<(u64, String)>>,
    /// C18 violations
    pub poison_violations: RefCell<Vec<(u64, String)>>,
    pub calls: RefCell<Vec<Call>>,
    pub calls_len: Rc<Cell<u64>>,
    pub call_ordinal: Cell<u64>,
    pub digest: Cell<u64>,
    pub doctype_count: Cell<u32>,
    pub element_appended_to_doc: Cell<bool>,
    pub n_parse_errors: Cell<u64>,
    pub last_line: Rc<Cell<u64>>,
    pub lines_seen: RefCell<Vec<u64>>,
    pub is_xml: bool,
    pub mutations: Rc<Cell<u64>>,
    pub stats_foster: Cell<u64>,
    pub stats_reparent: Cell<u64>,
    pub stats_before_sibling: Cell<u64>,
    pub stats_add_attrs: Cell<u64>,
    pub stats_remove: Cell<u64>,
    pub stats_clone_option: Cell<u64>,
    pub stats_attach_shadow: Cell<u64>,
}

impl ModelSink {
    pub fn new(policy: SinkPolicy, probe: Option<Rc<Probe>>, is_xml: bool) -> ModelSink {
        ModelSink {
            dom: RefCell::new(Dom::new()),
            policy,
            probe,
            contract_violations: RefCell::new(vec![]),
            poison_violations: RefCell::new(vec![]),
            calls: RefCell::new(vec![]),
            calls_len: Rc::new(Cell::new(0)),
            call_ordinal: Cell::new(0),
            digest: Cell::new(0),
            doctype_count: Cell::new(0),
            element_appended_to_doc: Cell::new(false),
            n_parse_errors: Cell::new(0),
            last_line: Rc::new(Cell::new(1)),
            lines_seen: RefCell::new(vec![]),
            is_xml,
            mutations: Rc::new(Cell::new(0)),
            stats_foster: Cell::new(0),
            stats_reparent: Cell::new(0),
            stats_before_sibling: Cell::new(0),
            stats_add_attrs: Cell::new(0),
            stats_remove: Cell::new(0),
            stats_clone_option: Cell::new(0),
            stats_attach_shadow: Cell::new(0),
        }
    }

    fn bump(&self, tag: u64) -> u64 {
        let o = self.call_ordinal.get() + 1;
        self.call_ordinal.set(o);
        self.digest.set(mix(self.digest.get(), tag));
        o
    }

    fn dig_str(&self, s: &str) {
        self.digest.set(mix(self.digest.get(), fnv1a(s.as_bytes())));
    }

    fn mutated(&self) {
        self.mutations.set(self.mutations.get() + 1);
    }

    fn violation(&self, msg: String) {
        let mut v = self.contract_violations.borrow_mut();
        if v.len() < 8 {
            v.push((self.call_ordinal.get(), msg));
        }
    }

    /// Validate a handle: created by this sink, not poisoned.
    fn chk(&self, what: &str, h: &H) -> bool {
        let dom = self.dom.borrow();
        if (h.0 as usize) >= dom.nodes.len() {
            drop(dom);
            self.violation(format!("{what}: handle {} was not created by this sink", h.0));
            return false;
        }
        if dom.n(h.0).poisoned {
            let mut v = self.poison_violations.borrow_mut();
            if v.len() < 8 {
                v.push((self.call_ordinal.get(), format!("{what}: node {} was collected (untraced and disconnected at a suspension) but is used again", h.0)));
            }
        }
        true
    }

    fn chk_elem(&self, what: &str, h: &H) -> bool {
        if !self.chk(what, h) {
            return false;
        }
        if !self.dom.borrow().is_element(h.0) {
            self.violation(format!("{what}: node {} is not an element", h.0));
            return false;
        }
        true
    }

    fn chk_attrs(&self, what: &str, attrs: &[Attribute]) {
        for (i, a) in attrs.iter().enumerate() {
            for b in &attrs[..i] {
                if a.name == b.name {
                    self.violation(format!(
                        "{what}: attribute list contains the qualified name {:?} twice",
                        a.name
                    ));
                    return;
                }
            }
        }
    }

    fn rec(&self, c: Call) {
        if self.policy.record_calls {
            self.calls.borrow_mut().push(c);
            self.calls_len.set(self.calls_len.get() + 1);
        }
    }

    fn child_checks(&self, what: &str, new_parent: Id, child: &NodeOrText<H>, must_be_parentless: bool) -> bool {
        if let NodeOrText::AppendNode(c) = child {
            if !self.chk(what, c) {
                return false;
            }
            let dom = self.dom.borrow();
            if must_be_parentless && dom.n(c.0).parent.is_some() {
                drop(dom);
                self.violation(format!("{what}: child node {} already has a parent", c.0));
                // keep going leniently: detach first
                self.dom.borrow_mut().detach(c.0);
            } else {
                drop(dom);
            }
            let dom = self.dom.borrow();
            if dom.is_inclusive_ancestor(c.0, new_parent) {
                drop(dom);
                self.violation(format!(
                    "{what}: node {} would be inserted under itself or one of its descendants",
                    c.0
                ));
                return false;
            }
            if matches!(dom.n(c.0).kind, Kind::Document | Kind::Fragment) {
                drop(dom);
                self.violation(format!("{what}: a document/fragment node {} is inserted as a child", c.0));
                return false;
            }
        }
        true
    }

    fn note_doc_child(&self, parent: Id, child: &NodeOrText<H>) {
        if parent == 0 {
            if let NodeOrText::AppendNode(c) = child {
                if self.dom.borrow().is_element(c.0) {
                    self.element_appended_to_doc.set(true);
                }
            }
        }
    }

    fn do_append(&self, parent: Id, child: NodeOrText<H>) {
        self.note_doc_child(parent, &child);
        let mut dom = self.dom.borrow_mut();
        match child {
            NodeOrText::AppendNode(c) => dom.append_node(parent, c.0),
            NodeOrText::AppendText(t) => dom.append_text(parent, &t),
        }
    }

    fn do_before(&self, sibling: Id, child: NodeOrText<H>) {
        let p = self.dom.borrow().n(sibling).parent;
        if let Some(p) = p {
            self.note_doc_child(p, &child);
        }
        let mut dom = self.dom.borrow_mut();
        match child {
            NodeOrText::AppendNode(c) => dom.insert_before(sibling, NodeOrTextM::Node(c.0)),
            NodeOrText::AppendText(t) => dom.insert_before(sibling, NodeOrTextM::Text(t.to_string())),
        }
    }

    fn before_checks(&self, what: &str, sibling: &H, child: &NodeOrText<H>) -> bool {
        if !self.chk(what, sibling) {
            return false;
        }
        let (parent, is_text) = {
            let dom = self.dom.borrow();
            (dom.n(sibling.0).parent, dom.is_text(sibling.0))
        };
        if is_text {
            self.violation(format!("{what}: reference sibling {} is a text node", sibling.0));
        }
        let parent = match parent {
            Some(p) => p,
            None => {
                self.violation(format!("{what}: reference sibling {} has no parent", sibling.0));
                return false;
            },
        };
        if let NodeOrText::AppendNode(c) = child {
            if c.0 == sibling.0 {
                self.violation(format!("{what}: node {} inserted before itself", c.0));
                return false;
            }
        }
        self.child_checks(what, parent, child, false)
    }

    fn split_child(child: &NodeOrText<H>) -> (Option<Id>, Option<String>) {
        match child {
            NodeOrText::AppendNode(c) => (Some(c.0), None),
            NodeOrText::AppendText(t) => (None, Some(t.to_string())),
        }
    }

    /// A script detaches one currently attached element (chosen by `selector`) from its parent.
    pub fn script_remove(&self, selector: u32) -> bool {
        let mut dom = self.dom.borrow_mut();
        let attached: Vec<Id> = (1..dom.nodes.len() as Id).filter(|&i| dom.is_element(i) && dom.n(i).parent.is_some()).collect();
        if attached.is_empty() {
            return false;
        }
        // Half of the time a script goes for the elements a tree builder is most likely to be
        // holding on to: head / form / template / table / select / html / body and friends.
        let special: Vec<Id> = attached
            .iter()
            .cloned()
            .filter(|&i| matches!(dom.local_name(i), Some("head" | "form" | "template" | "table" | "select" | "html" | "body" | "tbody" | "tr" | "b" | "a" | "i" | "p" | "div" | "svg" | "math")))
            .collect();
        let victim = if (selector >> 16) & 1 == 1 && !special.is_empty() {
            special[selector as usize % special.len()]
        } else {
            attached[selector as usize % attached.len()]
        };
        dom.detach(victim);
        true
    }

    // ---- C18 collector -------------------------------------------------

    /// Poison every node not connected (parent/child/template links, both
    /// directions) to one of `roots`.  Returns number of newly poisoned nodes.
    pub fn collect(&self, roots: &[Id]) -> usize {
        let mut dom = self.dom.borrow_mut();
        let n = dom.nodes.len();
        let mut mark = vec![false; n];
        let mut stack: Vec<Id> = vec![];
        for r in roots {
            if (*r as usize) < n && !mark[*r as usize] {
                mark[*r as usize] = true;
                stack.push(*r);
            }
        }
        while let Some(c) = stack.pop() {
            let node = dom.n(c);
            let mut next: Vec<Id> = node.children.clone();
            if let Some(p) = node.parent {
                next.push(p);
            }
            if let Some(t) = node.template_contents {
                next.push(t);
            }
            if let Some(h) = node.host {
                next.push(h);
            }
            if let Some(s) = node.shadow {
                next.push(s);
            }
            for x in next {
                if !mark[x as usize] {
                    mark[x as usize] = true;
                    stack.push(x);
                }
            }
        }
        let mut freed = 0;
        for i in 0..n {
            if !mark[i] && !dom.nodes[i].poisoned {
                dom.nodes[i].poisoned = true;
                freed += 1;
            }
        }
        freed
    }
}

fn quirks_code(m: QuirksMode) -> u8 {
    match m {
        QuirksMode::Quirks => 0,
        QuirksMode::LimitedQuirks => 1,
        QuirksMode::NoQuirks => 2,
    }
}

impl TreeSink for ModelSink {
    type Handle = H;
    type Output = Self;
    type ElemName<'a> = OwnedName;

    fn finish(self) -> Self {
        self
    }

    fn parse_error(&self, _msg: Cow<'static, str>) {
        self.n_parse_errors.set(self.n_parse_errors.get() + 1);
    }

    fn get_document(&self) -> H {
        H(0)
    }

    fn elem_name<'a>(&'a self, target: &'a H) -> OwnedName {
        // not counted in the digest: the number of queries is not an effect
        if self.chk_elem("elem_name", target) {
            if let Kind::Element { ns, local, .. } = &self.dom.borrow().n(target.0).kind {
                return OwnedName { ns: ns.clone(), local: local.clone() };
            }
        }
        OwnedName { ns: ns!(), local: local_name!("") }
    }

    fn create_element(&self, name: QualName, attrs: Vec<Attribute>, flags: ElementFlags) -> H {
        self.bump(1);
        self.chk_attrs("create_element", &attrs);
        self.dig_str(&name.local);
        self.dig_str(&name.ns);
        let mattrs: Vec<MAttr> = attrs.iter().map(attr_to_m).collect();
        for a in &mattrs {
            self.dig_str(&a.local);
            self.dig_str(&a.value);
        }
        let mut dom = self.dom.borrow_mut();
        let id = dom.new_node(Kind::Element {
            prefix: name.prefix.as_ref().map(|p| p.to_string()),
            ns: name.ns.clone(),
            local: name.local.clone(),
            attrs: mattrs.clone(),
            template: flags.template,
            mathml_ip: flags.mathml_annotation_xml_integration_point,
            dup_attrs: flags.had_duplicate_attributes,
        });
        if flags.template {
            let f = dom.new_node(Kind::Fragment);
            dom.nm(f).host = Some(id);
            dom.nm(id).template_contents = Some(f);
        }
        drop(dom);
        self.rec(Call::CreateElement {
            id,
            ns: name.ns.to_string(),
            local: name.local.to_string(),
            attrs: mattrs,
            template: flags.template,
        });
        H(id)
    }

    fn create_comment(&self, text: StrTendril) -> H {
        self.bump(2);
        self.dig_str(&text);
        let id = self.dom.borrow_mut().new_node(Kind::Comment(text.to_string()));
        self.rec(Call::CreateComment { id, text: text.to_string() });
        H(id)
    }

    fn create_pi(&self, target: StrTendril, data: StrTendril) -> H {
        self.bump(3);
        self.dig_str(&target);
        self.dig_str(&data);
        let id = self
            .dom
            .borrow_mut()
            .new_node(Kind::Pi { target: target.to_string(), data: data.to_string() });
        self.rec(Call::CreatePi { id, target: target.to_string(), data: data.to_string() });
        H(id)
    }

    fn append(&self, parent: &H, child: NodeOrText<H>) {
        self.bump(4);
        self.mutated();
        let (n, t) = Self::split_child(&child);
        if let Some(t) = &t {
            self.dig_str(t);
        }
        self.digest.set(mix(self.digest.get(), ((parent.0 as u64) << 32) | n.unwrap_or(u32::MAX) as u64));
        self.rec(Call::Append { parent: parent.0, node: n, text: t });
        if !self.chk("append(parent)", parent) {
            return;
        }
        if !self.child_checks("append", parent.0, &child, true) {
            return;
        }
        self.do_append(parent.0, child);
    }

    fn append_based_on_parent_node(&self, element: &H, prev_element: &H, child: NodeOrText<H>) {
        self.bump(5);
        self.mutated();
        self.stats_foster.set(self.stats_foster.get() + 1);
        let (n, t) = Self::split_child(&child);
        if let Some(t) = &t {
            self.dig_str(t);
        }
        let (element_detached, prev_inside_element) = {
            let dom = self.dom.borrow();
            let ok = (element.0 as usize) < dom.nodes.len() && (prev_element.0 as usize) < dom.nodes.len();
            (ok && dom.n(element.0).parent.is_none(), ok && dom.is_inclusive_ancestor(element.0, prev_element.0))
        };
        self.rec(Call::AppendBasedOnParent { element: element.0, prev: prev_element.0, node: n, text: t, element_detached, prev_inside_element });
        if !self.chk("append_based_on_parent_node(element)", element)
            || !self.chk("append_based_on_parent_node(prev_element)", prev_element)
        {
            return;
        }
        let has_parent = self.dom.borrow().n(element.0).parent.is_some();
        if has_parent {
            if !self.before_checks("append_based_on_parent_node", element, &child) {
                return;
            }
            self.do_before(element.0, child);
        } else {
            if !self.child_checks("append_based_on_parent_node", prev_element.0, &child, true) {
                return;
            }
            self.do_append(prev_element.0, child);
        }
    }

    fn append_doctype_to_document(&self, name: StrTendril, public_id: StrTendril, system_id: StrTendril) {
        self.bump(6);
        self.mutated();
        self.dig_str(&name);
        self.dig_str(&public_id);
        self.dig_str(&system_id);
        self.rec(Call::Doctype {
            name: name.to_string(),
            public_id: public_id.to_string(),
            system_id: system_id.to_string(),
        });
        self.doctype_count.set(self.doctype_count.get() + 1);
        if self.doctype_count.get() > 1 {
            self.violation("append_doctype_to_document: called more than once".into());
        }
        if self.element_appended_to_doc.get() {
            self.violation("append_doctype_to_document: called after an element was appended to the document".into());
        }
        let mut dom = self.dom.borrow_mut();
        let id = dom.new_node(Kind::Doctype {
            name: name.to_string(),
            public_id: public_id.to_string(),
            system_id: system_id.to_string(),
        });
        dom.append_node(0, id);
    }

    fn mark_script_already_started(&self, node: &H) {
        self.bump(7);
        self.rec(Call::MarkScript { node: node.0 });
        if !self.chk_elem("mark_script_already_started", node) {
            return;
        }
        if !self.dom.borrow().is_html_elem_named(node.0, "script") {
            self.violation(format!("mark_script_already_started: node {} is not an HTML script element", node.0));
        }
        self.dom.borrow_mut().nm(node.0).script_started = true;
    }

    fn pop(&self, node: &H) {
        // not part of the digest: purely a notification
        self.rec(Call::Pop { node: node.0 });
        self.chk_elem("pop", node);
    }

    fn get_template_contents(&self, target: &H) -> H {
        self.rec(Call::GetTemplateContents { target: target.0 });
        if self.chk_elem("get_template_contents", target) {
            let dom = self.dom.borrow();
            let ok_kind = match &dom.n(target.0).kind {
                Kind::Element { ns, local, template, .. } => {
                    *ns == ns!(html) && *local == local_name!("template") && *template
                },
                _ => false,
            };
            if ok_kind {
                if let Some(tc) = dom.n(target.0).template_contents {
                    return H(tc);
                }
            }
            drop(dom);
            self.violation(format!(
                "get_template_contents: node {} is not an HTML template element created with flags.template",
                target.0
            ));
        }
        // lenient fallback: give it a fresh fragment so the run can continue
        let mut dom = self.dom.borrow_mut();
        let f = dom.new_node(Kind::Fragment);
        H(f)
    }

    fn same_node(&self, x: &H, y: &H) -> bool {
        self.chk("same_node", x);
        self.chk("same_node", y);
        x.0 == y.0
    }

    fn set_quirks_mode(&self, mode: QuirksMode) {
        self.bump(8);
        self.digest.set(mix(self.digest.get(), quirks_code(mode) as u64));
        self.rec(Call::Quirks(quirks_code(mode)));
        self.dom.borrow_mut().quirks = Some(mode);
    }

    fn append_before_sibling(&self, sibling: &H, new_node: NodeOrText<H>) {
        self.bump(9);
        self.mutated();
        self.stats_before_sibling.set(self.stats_before_sibling.get() + 1);
        let (n, t) = Self::split_child(&new_node);
        if let Some(t) = &t {
            self.dig_str(t);
        }
        self.digest.set(mix(self.digest.get(), ((sibling.0 as u64) << 32) | n.unwrap_or(u32::MAX) as u64));
        self.rec(Call::AppendBefore { sibling: sibling.0, node: n, text: t });
        if !self.before_checks("append_before_sibling", sibling, &new_node) {
            return;
        }
        self.do_before(sibling.0, new_node);
    }

    fn add_attrs_if_missing(&self, target: &H, attrs: Vec<Attribute>) {
        self.bump(10);
        self.mutated();
        self.stats_add_attrs.set(self.stats_add_attrs.get() + 1);
        self.chk_attrs("add_attrs_if_missing", &attrs);
        let mattrs: Vec<MAttr> = attrs.iter().map(attr_to_m).collect();
        for a in &mattrs {
            self.dig_str(&a.local);
            self.dig_str(&a.value);
        }
        self.rec(Call::AddAttrs { target: target.0, attrs: mattrs.clone() });
        if !self.chk_elem("add_attrs_if_missing", target) {
            return;
        }
        self.dom.borrow_mut().add_attrs_if_missing(target.0, mattrs);
    }

    fn associate_with_form(&self, target: &H, form: &H, nodes: (&H, Option<&H>)) {
        self.bump(11);
        self.rec(Call::Associate { target: target.0, form: form.0, n0: nodes.0 .0, n1: nodes.1.map(|h| h.0) });
        if self.chk_elem("associate_with_form(target)", target) {
            // "the given form-associatable element": an HTML button, fieldset, input, object, output,
            // select, textarea or img (or a custom element, which only the embedder can judge)
            let dom = self.dom.borrow();
            let ok = ["button", "fieldset", "input", "object", "output", "select", "textarea", "img"].iter().any(|n| dom.is_html_elem_named(target.0, n))
                || matches!(&dom.n(target.0).kind, Kind::Element { ns, local, .. } if *ns == ns!(html) && local.contains('-'));
            let shown = match &dom.n(target.0).kind {
                Kind::Element { ns, local, .. } => format!("{{{}}}{}", &**ns, &**local),
                _ => "not an element".to_string(),
            };
            drop(dom);
            if !ok {
                self.violation(format!("associate_with_form: target {} ({}) is not an HTML form-associated element", target.0, shown));
            }
        }
        if self.chk_elem("associate_with_form(form)", form) && !self.dom.borrow().is_html_elem_named(form.0, "form") {
            self.violation(format!("associate_with_form: form argument {} is not an HTML form element", form.0));
        }
        self.chk_elem("associate_with_form(nodes.0)", nodes.0);
        if let Some(n1) = nodes.1 {
            self.chk_elem("associate_with_form(nodes.1)", n1);
        }
    }

    fn remove_from_parent(&self, target: &H) {
        self.bump(12);
        self.mutated();
        self.stats_remove.set(self.stats_remove.get() + 1);
        self.digest.set(mix(self.digest.get(), target.0 as u64));
        self.rec(Call::Remove { target: target.0 });
        if !self.chk("remove_from_parent", target) {
            return;
        }
        self.dom.borrow_mut().detach(target.0);
    }

    fn reparent_children(&self, node: &H, new_parent: &H) {
        self.bump(13);
        self.mutated();
        self.stats_reparent.set(self.stats_reparent.get() + 1);
        self.digest.set(mix(self.digest.get(), ((node.0 as u64) << 32) | new_parent.0 as u64));
        self.rec(Call::Reparent { node: node.0, new_parent: new_parent.0 });
        if !self.chk("reparent_children(node)", node) || !self.chk("reparent_children(new_parent)", new_parent) {
            return;
        }
        {
            let dom = self.dom.borrow();
            // new_parent must not be inside the subtree that is being moved
            let kids = dom.n(node.0).children.clone();
            for k in kids {
                if dom.is_inclusive_ancestor(k, new_parent.0) {
                    drop(dom);
                    self.violation(format!(
                        "reparent_children: child {} of {} would be inserted under itself or a descendant",
                        k, node.0
                    ));
                    return;
                }
            }
        }
        self.dom.borrow_mut().reparent_children(node.0, new_parent.0);
    }

    fn is_mathml_annotation_xml_integration_point(&self, handle: &H) -> bool {
        if self.chk_elem("is_mathml_annotation_xml_integration_point", handle) {
            if let Kind::Element { mathml_ip, .. } = &self.dom.borrow().n(handle.0).kind {
                return *mathml_ip;
            }
        }
        false
    }

    fn set_current_line(&self, line_number: u64) {
        self.last_line.set(line_number);
        let mut l = self.lines_seen.borrow_mut();
        if l.len() < 100_000 {
            l.push(line_number);
        }
    }

    fn allow_declarative_shadow_roots(&self, intended_parent: &H) -> bool {
        self.chk("allow_declarative_shadow_roots", intended_parent);
        self.policy.allow_shadow
    }

    fn attach_declarative_shadow(&self, location: &H, template: &H, attrs: &[Attribute]) -> bool {
        self.bump(14);
        self.stats_attach_shadow.set(self.stats_attach_shadow.get() + 1);
        self.chk_attrs("attach_declarative_shadow", attrs);
        let ok_l = self.chk_elem("attach_declarative_shadow(location)", location);
        let ok_t = self.chk_elem("attach_declarative_shadow(template)", template);
        let mut ok = self.policy.attach_ok && ok_l && ok_t;
        if ok {
            let mut dom = self.dom.borrow_mut();
            if dom.n(location.0).shadow.is_some() {
                ok = false; // an element can host only one shadow root
            } else if let Some(tc) = dom.n(template.0).template_contents {
                dom.nm(location.0).shadow = Some(tc);
                dom.nm(tc).host = Some(location.0);
                self.mutations.set(self.mutations.get() + 1);
            } else {
                ok = false;
            }
        }
        self.digest.set(mix(self.digest.get(), ok as u64));
        self.rec(Call::AttachShadow { location: location.0, template: template.0, ok });
        ok
    }

    fn maybe_clone_an_option_into_selectedcontent(&self, option: &H) {
        self.bump(15);
        self.stats_clone_option.set(self.stats_clone_option.get() + 1);
        self.rec(Call::CloneOption { option: option.0 });
        if self.is_xml {
            self.violation("maybe_clone_an_option_into_selectedcontent: called from xml5ever".into());
        }
        if !self.chk_elem("maybe_clone_an_option_into_selectedcontent", option) {
            return;
        }
        if !self.dom.borrow().is_html_elem_named(option.0, "option") {
            // "guaranteed to be an <option> element": the HTML one, not a foreign namesake
            self.violation(format!("maybe_clone_an_option_into_selectedcontent: node {} is not an HTML option element", option.0));
            return;
        }
        let before = self.dom.borrow().nodes.len();
        self.dom.borrow_mut().maybe_clone_option(option.0, self.policy.emulate_never_mirror);
        if self.dom.borrow().nodes.len() != before {
            self.mutated();
        }
    }
}
