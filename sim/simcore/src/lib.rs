pub mod gen_html;
pub mod html_stream;
pub mod model;
pub mod probe;
pub mod rng;
pub mod schedule;
pub mod html_props;
pub mod world;
