//! Oracles and generation for the XML stream world: C15 and the XML parts of C04 C05 C08 C18.

use serde_json::{json, Value};

use crate::gen_html::pick_size;
use crate::gen_xml::gen_xml;
use crate::html_props::boundary_contexts;
use crate::rng::{fnv1a, mix, Rng};
use crate::schedule::{gen_schedule, SchedKnobs, Schedule};
use crate::world::{greedy_min, string_candidates, CaseInfo, Stats, Violation, World};
use crate::xml_stream::*;

#[derive(Clone, Copy, Debug, PartialEq, Eq)]
pub enum XProp {
    C15,
    C04,
    C05,
    C08,
    C18,
}

pub struct XmlWorld {
    pub prop: XProp,
}

const C15_MODES: &[&str] = &["schedule", "exact_errors", "discard_bom", "normalised"];
const C08_FLIPS: &[&str] = &["exact_errors", "profile", "discard_bom"];

fn tree(o: &XRunObs) -> String {
    o.sink.as_ref().map(|s| s.dom.borrow().normal_form()).unwrap_or_default()
}

fn first_line_diff(a: &str, b: &str) -> String {
    let la: Vec<&str> = a.lines().collect();
    let lb: Vec<&str> = b.lines().collect();
    for i in 0..la.len().max(lb.len()) {
        if la.get(i) != lb.get(i) {
            return format!("tree line {}: expected {:?}, observed {:?}", i, la.get(i), lb.get(i));
        }
    }
    "no difference".into()
}

fn first_diff<T: PartialEq + std::fmt::Debug>(a: &[T], b: &[T]) -> String {
    for i in 0..a.len().max(b.len()) {
        if a.get(i) != b.get(i) {
            return format!("index {}: expected {:?}, observed {:?}", i, a.get(i), b.get(i));
        }
    }
    "no difference".into()
}

fn add_stats(stats: &mut Stats, o: &XRunObs) {
    let s = &o.stats;
    stats.add("events", s.events);
    stats.add("feeds", s.feeds);
    stats.add("F1_chunks_delivered", s.chunks);
    stats.add("F1_empty_chunks", s.empty_chunks);
    stats.add("F2_chunks_delivered_while_suspended", s.delivered_while_suspended);
    stats.add("F4_truncated_streams", s.truncated);
    stats.add("F4_end_at_pause", s.end_at_pause);
    stats.add("F5_collections", s.collections);
    stats.add("F5_nodes_collected", s.collected_nodes);
    stats.add("xml_pauses_script", s.pauses_script);
    stats.add("F15_feeds_followed_by_a_fresh_queue", s.fresh_queues);
    stats.add("F11_script_detached_an_element", s.script_removals);
}

impl XmlWorld {
    fn knobs(&self) -> SchedKnobs {
        match self.prop {
            XProp::C15 | XProp::C08 => SchedKnobs { allow_inject: false, allow_collect: false, allow_truncate: false, allow_end_at_pause: false, allow_script_dom: false },
            XProp::C04 => SchedKnobs { allow_inject: false, allow_collect: true, allow_truncate: true, allow_end_at_pause: true, allow_script_dom: false },
            XProp::C05 => SchedKnobs { allow_inject: false, allow_collect: true, allow_truncate: true, allow_end_at_pause: false, allow_script_dom: true },
            XProp::C18 => SchedKnobs { allow_inject: false, allow_collect: true, allow_truncate: true, allow_end_at_pause: false, allow_script_dom: true },
        }
    }

    fn gen_case(&self, rng: &mut Rng, thorough: bool) -> (XmlCase, Option<String>) {
        let size = pick_size(rng, thorough);
        let scale = rng.chance(1, if self.prop == XProp::C15 { 100 } else { 250 });
        let mut input = if scale { crate::gen_xml::gen_xml_scale(rng) } else { gen_xml(rng, size) };
        let mut opts = XOpts::default();
        if rng.chance(1, 4) {
            opts.exact_errors = true;
        }
        if rng.chance(1, 6) {
            opts.discard_bom = false;
        }
        if rng.chance(1, 10) {
            opts.profile = true;
        }
        let mut mode = None;
        let pipeline = match self.prop {
            XProp::C15 => {
                let m = *rng.pick(C15_MODES);
                mode = Some(m.to_string());
                if m == "discard_bom" && rng.chance(2, 3) && !input.starts_with('\u{feff}') {
                    input.insert(0, '\u{feff}');
                }
                if rng.chance(1, 6) {
                    XPipeline::Driver
                } else {
                    XPipeline::Tree
                }
            },
            XProp::C08 => {
                let m = *rng.pick(C08_FLIPS);
                mode = Some(m.to_string());
                if m == "discard_bom" && rng.chance(2, 3) && !input.starts_with('\u{feff}') {
                    input.insert(0, '\u{feff}');
                }
                if rng.chance(1, 2) {
                    XPipeline::Tree
                } else {
                    XPipeline::Tok { policy: if rng.chance(1, 2) { 0 } else { rng.next_u64() | 1 } }
                }
            },
            XProp::C04 => {
                if rng.chance(1, 300) {
                    // pathological nesting / length
                    let n = rng.range(100, if thorough { 20000 } else { 4000 });
                    input = match rng.below(4) {
                        0 => "<a>".repeat(n),
                        1 => format!("<a b=\"{}\">", "v".repeat(n * 20)),
                        2 => format!("<!--{}", "-".repeat(n * 20)),
                        _ => format!("<a {}>", (0..n / 4).map(|i| format!("a{}='1' ", i)).collect::<String>()),
                    };
                }
                if rng.chance(1, 10) {
                    XPipeline::RcDom
                } else if rng.chance(1, 10) {
                    XPipeline::Driver
                } else if rng.chance(1, 2) {
                    XPipeline::Tree
                } else {
                    XPipeline::Tok { policy: if rng.chance(1, 2) { 0 } else { rng.next_u64() | 1 } }
                }
            },
            XProp::C05 | XProp::C18 => {
                if self.prop == XProp::C18 && rng.chance(2, 3) {
                    for _ in 0..rng.range(1, 3) {
                        let n = input.chars().count();
                        let at = rng.below(n + 1);
                        let byte = input.char_indices().nth(at).map(|(b, _)| b).unwrap_or(input.len());
                        input.insert_str(byte, rng.pick_str(&["<script/>", "<script>s</script>", "</script>"]));
                    }
                }
                XPipeline::Tree
            },
        };
        let mut schedule = gen_schedule(rng, &input, self.knobs());
        for p in schedule.pauses.iter_mut() {
            p.inject = None;
        }
        (XmlCase { input, opts, pipeline, schedule }, mode)
    }

    fn run_checked(&self, case: &XmlCase, mode: &Option<String>, stats: &mut Stats, digest: &mut u64) -> Result<(), Violation> {
        match self.prop {
            XProp::C04 => {
                let o = run_xml(case, false);
                *digest = o.digest;
                add_stats(stats, &o);
                if o.is_driver {
                    stats.inc("xml_runs_through_xml5ever_driver");
                    return Ok(());
                }
                if o.stats.livelock != 0 {
                    return Err(Violation::new("feed-livelock", format!("feed() was resumed {} times without finishing the delivered input", o.stats.feeds)));
                }
                if let Some(rest) = &o.queue_nonempty_after_done {
                    return Err(Violation::new("queue-not-empty-after-done", format!("xml feed() returned Done with unread input {:?}", rest.chars().take(40).collect::<String>())));
                }
                if o.eof_count != 1 {
                    return Err(Violation::new("eof-count", format!("xml: {} EndOfFile tokens delivered (expected exactly 1)", o.eof_count)));
                }
                if o.after_eof != 0 {
                    return Err(Violation::new("token-after-eof", format!("xml: {} tokens delivered after EndOfFile", o.after_eof)));
                }
                if o.end_calls != 1 {
                    return Err(Violation::new("sink-end-count", format!("xml: TokenSink::end called {} times", o.end_calls)));
                }
                Ok(())
            },
            XProp::C05 => {
                let o = run_xml(case, false);
                *digest = o.digest;
                add_stats(stats, &o);
                if let Some((ord, msg)) = o.sink.as_ref().unwrap().contract_violations.borrow().first() {
                    return Err(Violation::new("treesink-contract", format!("xml sink call #{ord}: {msg}")));
                }
                Ok(())
            },
            XProp::C18 => {
                let o = run_xml(case, false);
                *digest = o.digest;
                add_stats(stats, &o);
                if let Some((ord, msg)) = o.sink.as_ref().unwrap().poison_violations.borrow().first() {
                    return Err(Violation::new("collected-node-used", format!("xml sink call #{ord}: {msg}")));
                }
                let mut c2 = case.clone();
                c2.schedule.collect_at.clear();
                let o2 = run_xml(&c2, false);
                if tree(&o2) != tree(&o) {
                    return Err(Violation::new("tree-differs-with-collection", first_line_diff(&tree(&o2), &tree(&o))));
                }
                Ok(())
            },
            XProp::C15 | XProp::C08 => {
                let m = mode.clone().unwrap_or_else(|| "schedule".into());
                let (a, b): (XmlCase, XmlCase) = match m.as_str() {
                    "schedule" => {
                        let mut r = case.clone();
                        r.schedule = Schedule::one_piece();
                        (r, case.clone())
                    },
                    "exact_errors" => {
                        let (mut a, mut b) = (case.clone(), case.clone());
                        a.opts.exact_errors = true;
                        b.opts.exact_errors = false;
                        (a, b)
                    },
                    "profile" => {
                        let (mut a, mut b) = (case.clone(), case.clone());
                        a.opts.profile = false;
                        b.opts.profile = true;
                        (a, b)
                    },
                    "discard_bom" => {
                        let (mut a, mut b) = (case.clone(), case.clone());
                        a.opts.discard_bom = false;
                        b.opts.discard_bom = true;
                        if let Some(rest) = case.input.strip_prefix('\u{feff}') {
                            a.input = rest.to_string();
                            a.schedule.cuts = case.schedule.cuts.iter().map(|c| c.saturating_sub(1)).collect();
                        }
                        (a, b)
                    },
                    _ => {
                        // "normalised": any schedule / options == one-piece character-at-a-time run
                        // of the pre-normalised input
                        let mut r = case.clone();
                        r.input = prenormalise(&case.input);
                        r.schedule = Schedule::one_piece();
                        r.opts.exact_errors = true;
                        (r, case.clone())
                    },
                };
                let (oa, ob) = crate::world::run_pair("the reference side", "the compared side", || run_xml(&a, false), || run_xml(&b, false))
                    .map_err(|v| Violation::new(if self.prop == XProp::C08 { "option-changes-outcome" } else { "xml-outcome-differs-panic" }, format!("mode {}: {}", m, v.detail)))?;
                *digest = ob.digest;
                add_stats(stats, &ob);
                if matches!(case.pipeline, XPipeline::Tree | XPipeline::Driver) {
                    let (ta, tb) = (tree(&oa), tree(&ob));
                    if ta != tb {
                        let class = match (self.prop, m.as_str()) {
                            (XProp::C08, _) => "option-changes-tree",
                            (_, "schedule") => "xml-tree-differs-across-chunking",
                            (_, "exact_errors") => "xml-tree-differs-across-exact-errors",
                            (_, "discard_bom") => "xml-bom-handling",
                            _ => "xml-tree-differs-from-normalised-reference",
                        };
                        return Err(Violation::new(class, format!("mode {}: {}", m, first_line_diff(&ta, &tb))));
                    }
                }
                if self.prop == XProp::C08 {
                    let (na, nb) = (xnormal(&oa.toks), xnormal(&ob.toks));
                    if na != nb {
                        return Err(Violation::new("option-changes-tokens", format!("xml flip {}: {}", m, first_diff(&na, &nb))));
                    }
                }
                Ok(())
            },
        }
    }

    fn parse(&self, v: &Value) -> (XmlCase, Option<String>) {
        (XmlCase::from_json(v), v["mode"].as_str().map(|s| s.to_string()))
    }
    fn emit(&self, c: &XmlCase, mode: &Option<String>) -> Value {
        let mut v = c.to_json();
        if let Some(m) = mode {
            v["mode"] = json!(m);
        }
        v
    }
}

fn candidates(c: &XmlCase) -> Vec<XmlCase> {
    let mut out = vec![];
    let s = &c.schedule;
    if !s.collect_at.is_empty() {
        let mut n = c.clone();
        n.schedule.collect_at.clear();
        out.push(n);
        for i in 0..s.collect_at.len().min(32) {
            let mut n = c.clone();
            n.schedule.collect_at.remove(i);
            out.push(n);
        }
    }
    if !s.pauses.is_empty() {
        let mut n = c.clone();
        n.schedule.pauses.clear();
        out.push(n);
    }
    if s.fresh_queue {
        let mut n = c.clone();
        n.schedule.fresh_queue = false;
        out.push(n);
    }
    if s.truncate_at.is_some() {
        let mut n = c.clone();
        n.schedule.truncate_at = None;
        out.push(n);
    }
    if s.end_at_pause.is_some() {
        let mut n = c.clone();
        n.schedule.end_at_pause = None;
        out.push(n);
    }
    if s.repr_name != "owned" {
        let mut n = c.clone();
        n.schedule.repr_name = "owned".into();
        out.push(n);
    }
    if !s.cuts.is_empty() {
        let mut n = c.clone();
        n.schedule.cuts.clear();
        out.push(n);
        let len = s.cuts.len();
        if len > 1 {
            let mut n = c.clone();
            n.schedule.cuts.truncate(len / 2);
            out.push(n);
            let mut n = c.clone();
            n.schedule.cuts.drain(..len / 2);
            out.push(n);
        }
        for k in 0..len.min(64) {
            let i = k * len / len.min(64);
            let hi = ((k + 1) * len / len.min(64)).min(len).max(i + 1);
            let mut n = c.clone();
            n.schedule.cuts.drain(i..hi);
            out.push(n);
        }
    }
    let d = XOpts::default();
    if c.opts.exact_errors != d.exact_errors {
        let mut n = c.clone();
        n.opts.exact_errors = d.exact_errors;
        out.push(n);
    }
    if c.opts.discard_bom != d.discard_bom {
        let mut n = c.clone();
        n.opts.discard_bom = d.discard_bom;
        out.push(n);
    }
    if c.opts.profile != d.profile {
        let mut n = c.clone();
        n.opts.profile = d.profile;
        out.push(n);
    }
    if let XPipeline::Tok { policy } = &c.pipeline {
        if *policy != 0 {
            let mut n = c.clone();
            n.pipeline = XPipeline::Tok { policy: 0 };
            out.push(n);
        }
    }
    for (s2, start, len) in string_candidates(&c.input) {
        let mut n = c.clone();
        n.input = s2;
        if len > 0 {
            n.schedule.cuts = c.schedule.cuts.iter().map(|&k| if k <= start { k } else if k >= start + len { k - len } else { start }).collect();
            if let Some(t) = c.schedule.truncate_at {
                n.schedule.truncate_at = Some(if t <= start { t } else if t >= start + len { t - len } else { start });
            }
        }
        out.push(n);
    }
    out
}

impl World for XmlWorld {
    fn property(&self) -> &'static str {
        match self.prop {
            XProp::C15 => "C15",
            XProp::C04 => "C04",
            XProp::C05 => "C05",
            XProp::C08 => "C08",
            XProp::C18 => "C18",
        }
    }
    fn world_name(&self) -> &'static str {
        "xml-stream"
    }
    fn gen(&self, rng: &mut Rng, thorough: bool) -> Value {
        let (c, m) = self.gen_case(rng, thorough);
        self.emit(&c, &m)
    }
    fn check(&self, v: &Value, stats: &mut Stats, _toggles: &[String]) -> (CaseInfo, Result<(), Violation>) {
        let (case, mode) = self.parse(v);
        let key = mix(fnv1a(case.input.as_bytes()), mix(case.schedule.key(), fnv1a(format!("{:?}{:?}{:?}", case.pipeline, case.opts, mode).as_bytes())));
        let nontrivial = !case.input.is_empty() && (!case.schedule.is_trivial() || mode.as_deref().map(|m| m != "schedule").unwrap_or(false));
        for c in boundary_contexts(&case.input, &case.schedule.cuts) {
            stats.set_insert("boundary_contexts", c as u64);
        }
        let chars: Vec<char> = case.input.chars().collect();
        for &c in &case.schedule.cuts {
            if c > 0 && c < chars.len() {
                if chars[c - 1] == '\r' {
                    stats.inc("xml_probe_boundary_right_after_CR");
                }
                if chars[c] == '\u{feff}' {
                    stats.inc("xml_probe_BOM_first_in_later_chunk");
                }
            }
        }
        if case.input.contains('\0') {
            stats.inc("xml_probe_input_has_NUL");
        }
        let mut digest = 0;
        let res = self.run_checked(&case, &mode, stats, &mut digest);
        if let Err(v) = &res {
            digest = mix(digest, fnv1a(v.class.as_bytes()));
        }
        (CaseInfo { key, nontrivial, digest }, res)
    }
    fn minimise(&self, v: &Value, class: &str, budget: usize, _toggles: &[String]) -> Value {
        let (case, mode) = self.parse(v);
        let mut fails = |c: &XmlCase| -> bool {
            let mut st = Stats::default();
            let mut dg = 0;
            match std::panic::catch_unwind(std::panic::AssertUnwindSafe(|| self.run_checked(c, &mode, &mut st, &mut dg))) {
                Ok(Err(v)) => v.class == class,
                Ok(Ok(())) => false,
                Err(_) => class == "panic",
            }
        };
        let m = greedy_min(case, &candidates, &mut fails, budget);
        self.emit(&m, &mode)
    }
    fn shrink_candidates(&self, v: &Value) -> Vec<Value> {
        let (case, mode) = self.parse(v);
        candidates(&case).iter().map(|c| self.emit(c, &mode)).collect()
    }
    fn rule(&self) -> String {
        "XML case = (grammar-generated malformed XML with namespaces, PIs, CDATA, doctypes, CR/NUL in every position, one in 100..250 from the XML scale family; tokenizer options; pipeline tokenizer+policy sink or tokenizer+tree builder+model DOM; one schedule); C15/C08 cases also carry a comparison mode (schedule | exact_errors | profile | discard_bom | normalised reference); non-trivial = non-empty input and a schedule with at least one interior cut or fault event, or a comparison mode other than 'schedule'; distinct = distinct hash of (input, schedule, pipeline, options, mode)".into()
    }
    fn components(&self) -> Value {
        json!({
            "real": ["xml5ever::tokenizer::XmlTokenizer", "xml5ever::tokenizer::char_ref", "xml5ever::tree_builder::XmlTreeBuilder", "markup5ever::buffer_queue::BufferQueue", "tendril::StrTendril"],
            "stub": ["Source (chunk delivery)", "Embedder (pause/resume loop)", "Collector", "ModelSink (TreeSink model + contract monitor)", "XPolicySink"]
        })
    }
    fn assumptions(&self) -> Vec<String> {
        vec!["seeded search: a clean batch is evidence, not proof".into()]
    }
    fn reports_panics(&self) -> bool {
        self.prop == XProp::C04
    }
    fn expected_probes(&self) -> Vec<&'static str> {
        vec!["F1_chunks_delivered", "xml_probe_boundary_right_after_CR", "xml_probe_input_has_NUL"]
    }
}

/// A world made of several sub-worlds serving the same property; the case's PRNG picks one.
pub struct CompositeWorld {
    pub prop: &'static str,
    pub parts: Vec<(u32, Box<dyn World>)>,
}

impl CompositeWorld {
    fn part_for(&self, case: &Value) -> &dyn World {
        let name = case["world"].as_str().unwrap_or("");
        for (_, p) in &self.parts {
            if p.world_name() == name {
                return p.as_ref();
            }
        }
        self.parts[0].1.as_ref()
    }
}

impl World for CompositeWorld {
    fn property(&self) -> &'static str {
        self.prop
    }
    fn world_name(&self) -> &'static str {
        "composite"
    }
    fn gen(&self, rng: &mut Rng, thorough: bool) -> Value {
        let weights: Vec<u32> = self.parts.iter().map(|p| p.0).collect();
        let i = rng.weighted(&weights);
        let mut v = self.parts[i].1.gen(rng, thorough);
        v["world"] = json!(self.parts[i].1.world_name());
        v
    }
    fn check(&self, case: &Value, stats: &mut Stats, toggles: &[String]) -> (CaseInfo, Result<(), Violation>) {
        let p = self.part_for(case);
        stats.inc(&format!("cases_in_world_{}", p.world_name()));
        p.check(case, stats, toggles)
    }
    fn minimise(&self, case: &Value, class: &str, budget: usize, toggles: &[String]) -> Value {
        let p = self.part_for(case);
        let mut v = p.minimise(case, class, budget, toggles);
        v["world"] = json!(p.world_name());
        v
    }
    fn shrink_candidates(&self, case: &Value) -> Vec<Value> {
        let p = self.part_for(case);
        p.shrink_candidates(case)
            .into_iter()
            .map(|mut v| {
                v["world"] = json!(p.world_name());
                v
            })
            .collect()
    }
    fn rule(&self) -> String {
        self.parts.iter().map(|p| format!("[{}] {}", p.1.world_name(), p.1.rule())).collect::<Vec<_>>().join(" || ")
    }
    fn components(&self) -> Value {
        json!(self.parts.iter().map(|p| json!({"world": p.1.world_name(), "components": p.1.components()})).collect::<Vec<_>>())
    }
    fn assumptions(&self) -> Vec<String> {
        let mut v = vec![];
        for p in &self.parts {
            for a in p.1.assumptions() {
                if !v.contains(&a) {
                    v.push(a);
                }
            }
        }
        v
    }
    fn reports_panics(&self) -> bool {
        self.parts.iter().any(|p| p.1.reports_panics())
    }
    fn reports_crashes(&self) -> bool {
        self.parts.iter().any(|p| p.1.reports_crashes())
    }
    fn expected_probes(&self) -> Vec<&'static str> {
        let mut v = vec![];
        for p in &self.parts {
            v.extend(p.1.expected_probes());
        }
        v
    }
}
