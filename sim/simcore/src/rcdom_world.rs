//! C20: RcDom vs the abstract DOM model under identical call traces.
//!  (a) recorded histories: a tee sink forwards every call of a simulated HTML / XML parse to the
//!      real RcDom and to ModelSink;
//!  (b) direct histories: seeded sequences of contract-valid TreeSink calls, including the rarely
//!      used ones.
//! After every mutating call: structural equality, parent links, and the callbacks made by
//! `SerializableHandle::serialize` against the model's preorder walk.

use std::borrow::Cow;
use std::cell::{Cell, RefCell};
use std::io;
use std::rc::Rc;

use markup5ever::interface::tree_builder::{ElementFlags, NodeOrText, QuirksMode, TreeSink};
use markup5ever::serialize::{AttrRef, Serialize, Serializer, TraversalScope};
use markup5ever::{Attribute, LocalName, Namespace, Prefix, QualName};
use markup5ever_rcdom::{Handle as RcHandle, NodeData, RcDom, SerializableHandle};
use serde_json::{json, Value};
use tendril::stream::TendrilSink;
use tendril::StrTendril;

use crate::gen_html::{gen_html, pick_size, SizeClass};
use crate::gen_xml::gen_xml;
use crate::model::{Dom, Id, Kind, ModelSink, OwnedName, SinkPolicy, H};
use crate::rng::{fnv1a, mix, Rng};
use crate::world::{greedy_min, string_candidates, CaseInfo, Stats, Violation, World};

#[derive(Clone)]
pub struct TeeH {
    pub r: RcHandle,
    pub m: H,
}

pub struct TeeSink {
    pub rc: RcDom,
    pub model: ModelSink,
    pub all: RefCell<Vec<TeeH>>,
    pub first_diff: RefCell<Option<(u64, String, String)>>,
    pub calls: Cell<u64>,
    pub check_every: u64,
    pub ser_faults: Cell<u64>,
    pub ser_subtrees: Cell<u64>,
}

impl TeeSink {
    pub fn new(emulate_never_mirror: bool, is_xml: bool) -> TeeSink {
        TeeSink {
            rc: RcDom::default(),
            model: ModelSink::new(SinkPolicy { attach_ok: false, allow_shadow: true, record_calls: false, emulate_never_mirror }, None, is_xml),
            all: RefCell::new(vec![]),
            first_diff: RefCell::new(None),
            calls: Cell::new(0),
            check_every: 1,
            ser_faults: Cell::new(0),
            ser_subtrees: Cell::new(0),
        }
    }

    fn reg(&self, r: RcHandle, m: H) -> TeeH {
        let h = TeeH { r, m };
        self.all.borrow_mut().push(h.clone());
        h
    }

    fn after(&self, what: &str) {
        let n = self.calls.get() + 1;
        self.calls.set(n);
        if self.first_diff.borrow().is_some() {
            return;
        }
        let size = self.model.dom.borrow().nodes.len() as u64;
        let every = if size > 400 { 64 } else if size > 120 { 8 } else { self.check_every };
        if n % every != 0 {
            return;
        }
        if let Err((class, d)) = self.compare() {
            *self.first_diff.borrow_mut() = Some((n, class, format!("after call #{n} ({what}): {d}")));
        }
    }

    pub fn compare(&self) -> Result<(), (String, String)> {
        let dom = self.model.dom.borrow();
        compare_trees(&self.rc.document, &dom, 0).map_err(|e| ("tree-differs".to_string(), e))?;
        // parent links of every node ever created through the sink
        for h in self.all.borrow().iter() {
            let mp = dom.n(h.m .0).parent;
            let rp = rc_parent(&h.r);
            match (mp, rp) {
                (None, None) => {},
                (Some(_), Some(p)) => {
                    if !p.children.borrow().iter().any(|c| Rc::ptr_eq(c, &h.r)) {
                        return Err(("parent-link-wrong".into(), format!("node {} has a parent link to a node whose child list does not contain it", h.m .0)));
                    }
                },
                (None, Some(_)) => {
                    return Err(("parent-link-wrong".into(), format!("node {} is detached in the model but RcDom still records a parent", h.m .0)));
                },
                (Some(p), None) => {
                    return Err(("parent-link-wrong".into(), format!("node {} has parent {} in the model but none in RcDom", h.m .0, p)));
                },
            }
        }
        let want = model_events(&dom);
        let sh: SerializableHandle = self.rc.document.clone().into();
        let turn = self.calls.get().wrapping_mul(0x9E3779B97F4A7C15) >> 33;
        // F16 (every fourth comparison): the caller's serializer fails at one callback.  The walk has
        // to stop with that error, what it delivered before is a prefix of the full walk, and the
        // tree is what it was (the comparison below and the full walk after it run on the same tree).
        if turn % 4 == 0 && !want.is_empty() {
            let at = (turn / 4) as usize % want.len();
            let mut rec = RecSer { events: vec![], fail_at: Some(at) };
            match sh.serialize(&mut rec, TraversalScope::ChildrenOnly(None)) {
                Ok(()) => return Err(("serializer-error-swallowed".into(), format!("the serializer failed at callback #{at} and serialize() returned Ok"))),
                Err(_) => {
                    if rec.events.len() != at || rec.events[..] != want[..at] {
                        return Err(("serialize-order-differs".into(), format!("before the injected failure at callback #{at} the serializer saw {} callbacks that are not the first {at} of the model walk", rec.events.len())));
                    }
                },
            }
            self.ser_faults.set(self.ser_faults.get() + 1);
            compare_trees(&self.rc.document, &dom, 0).map_err(|e| ("tree-changed-by-failed-serialization".to_string(), e))?;
        }
        // one node serialised with IncludeNode (every eighth comparison): the node itself, then its subtree
        if turn % 8 == 1 {
            let all = self.all.borrow();
            if !all.is_empty() {
                let h = &all[(turn / 8) as usize % all.len()];
                if !matches!(dom.n(h.m .0).kind, Kind::Document | Kind::Fragment) {
                    let mut rec = RecSer { events: vec![], fail_at: None };
                    let one: SerializableHandle = h.r.clone().into();
                    if let Err(e) = one.serialize(&mut rec, TraversalScope::IncludeNode) {
                        return Err(("serialize-error".into(), format!("{e}")));
                    }
                    if rec.events != model_events_of(&dom, h.m .0, true) {
                        return Err(("serialize-order-differs".into(), format!("IncludeNode walk of node {} differs from the model's walk of that subtree", h.m .0)));
                    }
                    self.ser_subtrees.set(self.ser_subtrees.get() + 1);
                }
            }
        }
        // serialisation visits each node once in document order
        let mut rec = RecSer { events: vec![], fail_at: None };
        if let Err(e) = sh.serialize(&mut rec, TraversalScope::ChildrenOnly(None)) {
            return Err(("serialize-error".into(), format!("{e}")));
        }
        if rec.events != want {
            for i in 0..rec.events.len().max(want.len()) {
                if rec.events.get(i) != want.get(i) {
                    return Err(("serialize-order-differs".into(), format!("serializer callback #{i}: RcDom {:?}, model walk {:?}", rec.events.get(i), want.get(i))));
                }
            }
        }
        let rq = self.rc.quirks_mode.get();
        if let Some(mq) = dom.quirks {
            if mq != rq {
                return Err(("quirks-differ".into(), format!("RcDom quirks {:?}, model {:?}", rq, mq)));
            }
        }
        Ok(())
    }
}

fn rc_parent(h: &RcHandle) -> Option<RcHandle> {
    let p = h.parent.take();
    let r = p.as_ref().and_then(|w| w.upgrade());
    h.parent.set(p);
    r
}

fn attrs_of(attrs: &[Attribute]) -> Vec<(Option<String>, String, String, String)> {
    attrs.iter().map(|a| (a.name.prefix.as_ref().map(|p| p.to_string()), a.name.ns.to_string(), a.name.local.to_string(), a.value.to_string())).collect()
}

fn compare_trees(rc_root: &RcHandle, dom: &Dom, m_root: Id) -> Result<(), String> {
    let mut stack: Vec<(RcHandle, Id, bool)> = vec![(rc_root.clone(), m_root, false)];
    // a tree: every RcDom node is reached once (children and template contents included)
    let mut seen: std::collections::BTreeMap<usize, Id> = std::collections::BTreeMap::new();
    while let Some((r, m, is_template_contents)) = stack.pop() {
        if let Some(first) = seen.insert(Rc::as_ptr(&r) as usize, m) {
            return Err(format!(
                "node {m}: the same RcDom node also stands for model node {first} (shared between two places of the tree{})",
                if is_template_contents { ", as template contents" } else { "" }
            ));
        }
        let mn = dom.n(m);
        let desc = |s: &str| format!("node {m}: {s}");
        match (&r.data, &mn.kind) {
            (NodeData::Document, Kind::Document) | (NodeData::Document, Kind::Fragment) => {},
            (NodeData::Doctype { name, public_id, system_id }, Kind::Doctype { name: n2, public_id: p2, system_id: s2 }) => {
                if &**name != n2 || &**public_id != p2 || &**system_id != s2 {
                    return Err(desc("doctype fields differ"));
                }
            },
            (NodeData::Text { contents }, Kind::Text(t)) => {
                if &**contents.borrow() != t.as_str() {
                    return Err(desc(&format!("text differs: RcDom {:?}, model {:?}", &**contents.borrow(), t)));
                }
            },
            (NodeData::Comment { contents }, Kind::Comment(t)) => {
                if &**contents != t.as_str() {
                    return Err(desc("comment differs"));
                }
            },
            (NodeData::ProcessingInstruction { target, contents }, Kind::Pi { target: t2, data }) => {
                if &**target != t2 || &**contents != data {
                    return Err(desc("processing instruction differs"));
                }
            },
            (NodeData::Element { name, attrs, template_contents, mathml_annotation_xml_integration_point }, Kind::Element { prefix, ns, local, attrs: ma, mathml_ip, .. }) => {
                if name.ns != *ns || name.local != *local || name.prefix.as_ref().map(|p| p.to_string()) != *prefix {
                    return Err(desc(&format!("element name differs: RcDom {:?}, model {:?}:{}", name, prefix, local)));
                }
                let ra = attrs_of(&attrs.borrow());
                let mav: Vec<_> = ma.iter().map(|a| (a.prefix.clone(), a.ns.clone(), a.local.clone(), a.value.clone())).collect();
                if ra != mav {
                    return Err(desc(&format!("attributes differ: RcDom {:?}, model {:?}", ra, mav)));
                }
                if *mathml_annotation_xml_integration_point != *mathml_ip {
                    return Err(desc("integration point flag differs"));
                }
                match (template_contents.borrow().as_ref(), mn.template_contents) {
                    (None, None) => {},
                    (Some(rt), Some(mt)) => stack.push((rt.clone(), mt, true)),
                    _ => return Err(desc("template contents present on one side only")),
                }
            },
            (a, b) => return Err(desc(&format!("node kinds differ: RcDom {:?}, model {:?}", std::mem::discriminant(a), b))),
        }
        let rch = r.children.borrow();
        if rch.len() != mn.children.len() {
            return Err(desc(&format!("child count differs: RcDom {}, model {}", rch.len(), mn.children.len())));
        }
        for (rc_child, m_child) in rch.iter().zip(mn.children.iter()) {
            // every child's parent link names the node whose child list contains it
            match rc_parent(rc_child) {
                Some(p) if Rc::ptr_eq(&p, &r) => {},
                Some(_) => return Err(format!("node {}: parent link points to a different node than the one holding it (child of {m})", m_child)),
                None => return Err(format!("node {}: in the child list of {m} but has no parent link", m_child)),
            }
            stack.push((rc_child.clone(), *m_child, false));
        }
        let _ = is_template_contents;
    }
    Ok(())
}

#[derive(Debug, PartialEq, Eq, Clone)]
enum SerEv {
    Start(String, Vec<(String, String)>),
    End(String),
    Text(String),
    Comment(String),
    Doctype(String),
    Pi(String, String),
}

struct RecSer {
    events: Vec<SerEv>,
    /// F16: the serializer (the caller's writer behind it) fails at this callback
    fail_at: Option<usize>,
}

impl RecSer {
    fn push(&mut self, ev: SerEv) -> io::Result<()> {
        if self.fail_at == Some(self.events.len()) {
            self.fail_at = None;
            return Err(io::Error::new(io::ErrorKind::Other, "injected: writer full"));
        }
        self.events.push(ev);
        Ok(())
    }
}

impl Serializer for RecSer {
    fn start_elem<'a, AttrIter>(&mut self, name: QualName, attrs: AttrIter) -> io::Result<()>
    where
        AttrIter: Iterator<Item = AttrRef<'a>>,
    {
        self.push(SerEv::Start(format!("{}|{}", name.ns, name.local), attrs.map(|(n, v)| (format!("{}|{}", n.ns, n.local), v.to_string())).collect()))
    }
    fn end_elem(&mut self, name: QualName) -> io::Result<()> {
        self.push(SerEv::End(format!("{}|{}", name.ns, name.local)))
    }
    fn write_text(&mut self, text: &str) -> io::Result<()> {
        self.push(SerEv::Text(text.to_string()))
    }
    fn write_comment(&mut self, text: &str) -> io::Result<()> {
        self.push(SerEv::Comment(text.to_string()))
    }
    fn write_doctype(&mut self, name: &str) -> io::Result<()> {
        self.push(SerEv::Doctype(name.to_string()))
    }
    fn write_processing_instruction(&mut self, target: &str, data: &str) -> io::Result<()> {
        self.push(SerEv::Pi(target.to_string(), data.to_string()))
    }
}

fn model_events(dom: &Dom) -> Vec<SerEv> {
    model_events_of(dom, 0, false)
}

fn model_events_of(dom: &Dom, root: Id, include_node: bool) -> Vec<SerEv> {
    enum It {
        Open(Id),
        Close(String),
    }
    let mut out = vec![];
    let mut stack: Vec<It> = if include_node { vec![It::Open(root)] } else { dom.n(root).children.iter().rev().map(|c| It::Open(*c)).collect() };
    while let Some(it) = stack.pop() {
        match it {
            It::Close(n) => out.push(SerEv::End(n)),
            It::Open(id) => match &dom.n(id).kind {
                Kind::Element { ns, local, attrs, .. } => {
                    let name = format!("{}|{}", ns, local);
                    out.push(SerEv::Start(name.clone(), attrs.iter().map(|a| (format!("{}|{}", a.ns, a.local), a.value.clone())).collect()));
                    stack.push(It::Close(name));
                    for c in dom.n(id).children.iter().rev() {
                        stack.push(It::Open(*c));
                    }
                },
                Kind::Text(t) => out.push(SerEv::Text(t.clone())),
                Kind::Comment(t) => out.push(SerEv::Comment(t.clone())),
                Kind::Doctype { name, .. } => out.push(SerEv::Doctype(name.clone())),
                Kind::Pi { target, data } => out.push(SerEv::Pi(target.clone(), data.clone())),
                Kind::Document | Kind::Fragment => {},
            },
        }
    }
    out
}

fn split<'a>(c: &NodeOrText<TeeH>) -> (NodeOrText<RcHandle>, NodeOrText<H>) {
    match c {
        NodeOrText::AppendNode(h) => (NodeOrText::AppendNode(h.r.clone()), NodeOrText::AppendNode(h.m.clone())),
        NodeOrText::AppendText(t) => (NodeOrText::AppendText(t.clone()), NodeOrText::AppendText(t.clone())),
    }
}

impl TreeSink for TeeSink {
    type Handle = TeeH;
    type Output = Self;
    type ElemName<'a> = OwnedName;

    fn finish(self) -> Self {
        self
    }
    fn parse_error(&self, msg: Cow<'static, str>) {
        self.rc.parse_error(msg.clone());
        self.model.parse_error(msg);
    }
    fn get_document(&self) -> TeeH {
        TeeH { r: self.rc.get_document(), m: self.model.get_document() }
    }
    fn elem_name<'a>(&'a self, target: &'a TeeH) -> OwnedName {
        let n = self.model.elem_name(&target.m);
        // RcDom must agree on the name
        if let NodeData::Element { name, .. } = &target.r.data {
            if name.ns != n.ns || name.local != n.local {
                if self.first_diff.borrow().is_none() {
                    *self.first_diff.borrow_mut() = Some((self.calls.get(), "tree-differs".into(), format!("elem_name: RcDom {:?}, model {:?}", name, n)));
                }
            }
        }
        n
    }
    fn create_element(&self, name: QualName, attrs: Vec<Attribute>, flags: ElementFlags) -> TeeH {
        let f2 = {
            let mut f = ElementFlags::default();
            f.template = flags.template;
            f.mathml_annotation_xml_integration_point = flags.mathml_annotation_xml_integration_point;
            f.had_duplicate_attributes = flags.had_duplicate_attributes;
            f
        };
        let r = self.rc.create_element(name.clone(), attrs.clone(), flags);
        let m = self.model.create_element(name, attrs, f2);
        self.reg(r, m)
    }
    fn create_comment(&self, text: StrTendril) -> TeeH {
        let r = self.rc.create_comment(text.clone());
        let m = self.model.create_comment(text);
        self.reg(r, m)
    }
    fn create_pi(&self, target: StrTendril, data: StrTendril) -> TeeH {
        let r = self.rc.create_pi(target.clone(), data.clone());
        let m = self.model.create_pi(target, data);
        self.reg(r, m)
    }
    fn append(&self, parent: &TeeH, child: NodeOrText<TeeH>) {
        let (a, b) = split(&child);
        self.rc.append(&parent.r, a);
        self.model.append(&parent.m, b);
        self.after("append");
    }
    fn append_based_on_parent_node(&self, element: &TeeH, prev_element: &TeeH, child: NodeOrText<TeeH>) {
        let (a, b) = split(&child);
        self.rc.append_based_on_parent_node(&element.r, &prev_element.r, a);
        self.model.append_based_on_parent_node(&element.m, &prev_element.m, b);
        self.after("append_based_on_parent_node");
    }
    fn append_doctype_to_document(&self, name: StrTendril, public_id: StrTendril, system_id: StrTendril) {
        self.rc.append_doctype_to_document(name.clone(), public_id.clone(), system_id.clone());
        self.model.append_doctype_to_document(name, public_id, system_id);
        self.after("append_doctype_to_document");
    }
    fn mark_script_already_started(&self, node: &TeeH) {
        self.rc.mark_script_already_started(&node.r);
        self.model.mark_script_already_started(&node.m);
    }
    fn pop(&self, node: &TeeH) {
        self.rc.pop(&node.r);
        self.model.pop(&node.m);
    }
    fn get_template_contents(&self, target: &TeeH) -> TeeH {
        TeeH { r: self.rc.get_template_contents(&target.r), m: self.model.get_template_contents(&target.m) }
    }
    fn same_node(&self, x: &TeeH, y: &TeeH) -> bool {
        let a = self.rc.same_node(&x.r, &y.r);
        let b = self.model.same_node(&x.m, &y.m);
        if a != b && self.first_diff.borrow().is_none() {
            *self.first_diff.borrow_mut() = Some((self.calls.get(), "tree-differs".into(), format!("same_node({}, {}) answered {a} by RcDom and {b} by the model", x.m .0, y.m .0)));
        }
        b
    }
    fn set_quirks_mode(&self, mode: QuirksMode) {
        self.rc.set_quirks_mode(mode);
        self.model.set_quirks_mode(mode);
    }
    fn append_before_sibling(&self, sibling: &TeeH, new_node: NodeOrText<TeeH>) {
        let (a, b) = split(&new_node);
        self.rc.append_before_sibling(&sibling.r, a);
        self.model.append_before_sibling(&sibling.m, b);
        self.after("append_before_sibling");
    }
    fn add_attrs_if_missing(&self, target: &TeeH, attrs: Vec<Attribute>) {
        self.rc.add_attrs_if_missing(&target.r, attrs.clone());
        self.model.add_attrs_if_missing(&target.m, attrs);
        self.after("add_attrs_if_missing");
    }
    fn associate_with_form(&self, target: &TeeH, form: &TeeH, nodes: (&TeeH, Option<&TeeH>)) {
        self.rc.associate_with_form(&target.r, &form.r, (&nodes.0.r, nodes.1.map(|h| &h.r)));
        self.model.associate_with_form(&target.m, &form.m, (&nodes.0.m, nodes.1.map(|h| &h.m)));
    }
    fn remove_from_parent(&self, target: &TeeH) {
        self.rc.remove_from_parent(&target.r);
        self.model.remove_from_parent(&target.m);
        self.after("remove_from_parent");
    }
    fn reparent_children(&self, node: &TeeH, new_parent: &TeeH) {
        self.rc.reparent_children(&node.r, &new_parent.r);
        self.model.reparent_children(&node.m, &new_parent.m);
        self.after("reparent_children");
    }
    fn is_mathml_annotation_xml_integration_point(&self, handle: &TeeH) -> bool {
        let a = self.rc.is_mathml_annotation_xml_integration_point(&handle.r);
        let b = self.model.is_mathml_annotation_xml_integration_point(&handle.m);
        if a != b && self.first_diff.borrow().is_none() {
            *self.first_diff.borrow_mut() = Some((self.calls.get(), "tree-differs".into(), "is_mathml_annotation_xml_integration_point answers differ".into()));
        }
        b
    }
    fn set_current_line(&self, line: u64) {
        self.rc.set_current_line(line);
        self.model.set_current_line(line);
    }
    fn allow_declarative_shadow_roots(&self, p: &TeeH) -> bool {
        let _ = self.rc.allow_declarative_shadow_roots(&p.r);
        self.model.allow_declarative_shadow_roots(&p.m)
    }
    fn attach_declarative_shadow(&self, location: &TeeH, template: &TeeH, attrs: &[Attribute]) -> bool {
        // RcDom keeps the default (false); the model must agree
        let a = self.rc.attach_declarative_shadow(&location.r, &template.r, attrs);
        let b = self.model.attach_declarative_shadow(&location.m, &template.m, attrs);
        a && b
    }
    fn maybe_clone_an_option_into_selectedcontent(&self, option: &TeeH) {
        self.rc.maybe_clone_an_option_into_selectedcontent(&option.r);
        self.model.maybe_clone_an_option_into_selectedcontent(&option.m);
        self.after("maybe_clone_an_option_into_selectedcontent");
    }
}

// ------------------------------------------------------------------ direct histories

#[derive(Clone, Debug, PartialEq, Eq)]
pub struct DOp {
    pub kind: u8,
    pub a: u32,
    pub b: u32,
    pub c: u32,
    pub s: String,
}

const D_CREATE_ELEM: u8 = 0;
const D_CREATE_COMMENT: u8 = 1;
const D_APPEND_NODE: u8 = 2;
const D_APPEND_TEXT: u8 = 3;
const D_BEFORE_NODE: u8 = 4;
const D_BEFORE_TEXT: u8 = 5;
const D_BASED_ON_PARENT: u8 = 6;
const D_REMOVE: u8 = 7;
const D_REPARENT: u8 = 8;
const D_ADD_ATTRS: u8 = 9;
const D_CLONE_OPTION: u8 = 10;
const D_DOCTYPE: u8 = 11;
const D_TEMPLATE_APPEND: u8 = 12;
const D_CREATE_PI: u8 = 13;
const D_KINDS: u8 = 14;
const D_NOP: u8 = 200;

const ELEMS: &[&str] = &["div", "p", "select", "option", "optgroup", "selectedcontent", "button", "datalist", "hr", "b", "span", "template", "table", "tr", "td"];
const ATTRN: &[&str] = &["id", "class", "selected", "multiple", "a", "b"];

fn qn(local: &str) -> QualName {
    QualName::new(None, Namespace::from("http://www.w3.org/1999/xhtml"), LocalName::from(local))
}

fn mk_attrs(sel: u32) -> Vec<Attribute> {
    let mut v = vec![];
    for (i, n) in ATTRN.iter().enumerate() {
        if sel & (1 << i) != 0 {
            let prefix = if sel & (1 << (8 + i)) != 0 { Some(Prefix::from("p")) } else { None };
            v.push(Attribute { name: QualName::new(prefix, Namespace::from(""), LocalName::from(*n)), value: StrTendril::from_slice(&format!("v{}", sel % 7)) });
        }
    }
    v
}

/// Apply a direct history; invalid operations (by the C05 predicates) are skipped.
fn run_direct(ops: &[DOp], emulate: bool, stats: &mut Stats) -> Result<u64, Violation> {
    let sink = TeeSink::new(emulate, false);
    let doc = sink.get_document();
    let mut hs: Vec<TeeH> = vec![doc.clone()];
    let mut doctype_done = false;
    let mut elem_in_doc = false;
    for op in ops {
        if sink.first_diff.borrow().is_some() {
            break;
        }
        let n = hs.len();
        let pick = |x: u32| hs[x as usize % n].clone();
        let dom_is_elem = |h: &TeeH| sink.model.dom.borrow().is_element(h.m .0);
        let has_parent = |h: &TeeH| sink.model.dom.borrow().n(h.m .0).parent.is_some();
        let is_text = |h: &TeeH| sink.model.dom.borrow().is_text(h.m .0);
        let can_have_children = |h: &TeeH| matches!(sink.model.dom.borrow().n(h.m .0).kind, Kind::Element { .. } | Kind::Document | Kind::Fragment);
        let would_cycle = |child: &TeeH, parent: &TeeH| sink.model.dom.borrow().is_inclusive_ancestor(child.m .0, parent.m .0);
        let is_doc_or_frag = |h: &TeeH| matches!(sink.model.dom.borrow().n(h.m .0).kind, Kind::Document | Kind::Fragment);
        match if op.kind == D_NOP { 250 } else { op.kind % D_KINDS } {
            D_CREATE_ELEM => {
                let name = ELEMS[op.a as usize % ELEMS.len()];
                let mut flags = ElementFlags::default();
                flags.template = name == "template";
                // one element in eight is created as a MathML annotation-xml integration point
                flags.mathml_annotation_xml_integration_point = op.b & 0x3800 == 0x3800;
                let h = sink.create_element(qn(name), mk_attrs(op.b), flags);
                hs.push(h);
                stats.inc("direct_create_element");
            },
            D_CREATE_COMMENT => {
                let h = sink.create_comment(StrTendril::from_slice(&op.s));
                hs.push(h);
            },
            D_CREATE_PI => {
                let h = sink.create_pi(StrTendril::from_slice("t"), StrTendril::from_slice(&op.s));
                hs.push(h);
            },
            D_APPEND_NODE => {
                let (p, c) = (pick(op.a), pick(op.b));
                if can_have_children(&p) && !has_parent(&c) && !is_doc_or_frag(&c) && !would_cycle(&c, &p) && !(p.m .0 == 0 && !dom_is_elem(&c) && is_text(&c)) {
                    if p.m .0 == 0 && dom_is_elem(&c) {
                        elem_in_doc = true;
                    }
                    sink.append(&p, NodeOrText::AppendNode(c));
                    stats.inc("direct_append_node");
                }
            },
            D_APPEND_TEXT => {
                let p = pick(op.a);
                if can_have_children(&p) && p.m .0 != 0 && !op.s.is_empty() {
                    sink.append(&p, NodeOrText::AppendText(StrTendril::from_slice(&op.s)));
                    stats.inc("direct_append_text");
                }
            },
            D_BEFORE_NODE => {
                let (s, c) = (pick(op.a), pick(op.b));
                if has_parent(&s) && !is_text(&s) && s.m .0 != c.m .0 && !is_doc_or_frag(&c) {
                    let parent = sink.model.dom.borrow().n(s.m .0).parent.unwrap();
                    let ph = TeeH { r: rc_parent(&s.r).unwrap(), m: H(parent) };
                    if !would_cycle(&c, &ph) && parent != 0 {
                        if has_parent(&c) {
                            let same = sink.model.dom.borrow().n(c.m .0).parent == Some(parent);
                            stats.inc(if same { "direct_before_sibling_node_from_same_parent" } else { "direct_before_sibling_node_from_other_parent" });
                        }
                        sink.append_before_sibling(&s, NodeOrText::AppendNode(c));
                        stats.inc("direct_before_sibling_node");
                    }
                }
            },
            D_BEFORE_TEXT => {
                let s = pick(op.a);
                if has_parent(&s) && !is_text(&s) && !op.s.is_empty() && sink.model.dom.borrow().n(s.m .0).parent != Some(0) {
                    sink.append_before_sibling(&s, NodeOrText::AppendText(StrTendril::from_slice(&op.s)));
                    stats.inc("direct_before_sibling_text");
                }
            },
            D_BASED_ON_PARENT => {
                let (e, prev, c) = (pick(op.a), pick(op.b), pick(op.c));
                let text = op.c % 2 == 0;
                if dom_is_elem(&e) && dom_is_elem(&prev) {
                    let e_parent = sink.model.dom.borrow().n(e.m .0).parent;
                    if text && !op.s.is_empty() && e_parent != Some(0) {
                        sink.append_based_on_parent_node(&e, &prev, NodeOrText::AppendText(StrTendril::from_slice(&op.s)));
                        stats.inc("direct_based_on_parent");
                    } else if !text && !has_parent(&c) && !is_doc_or_frag(&c) && c.m .0 != e.m .0 {
                        let target = match e_parent {
                            Some(p) => TeeH { r: rc_parent(&e.r).unwrap(), m: H(p) },
                            None => prev.clone(),
                        };
                        if !would_cycle(&c, &target) && target.m .0 != 0 {
                            sink.append_based_on_parent_node(&e, &prev, NodeOrText::AppendNode(c));
                            stats.inc("direct_based_on_parent");
                        }
                    }
                }
            },
            D_REMOVE => {
                let t = pick(op.a);
                if t.m .0 != 0 && !is_doc_or_frag(&t) {
                    sink.remove_from_parent(&t);
                    stats.inc("direct_remove_from_parent");
                }
            },
            D_REPARENT => {
                let (nd, np) = (pick(op.a), pick(op.b));
                if nd.m .0 != np.m .0 && can_have_children(&np) && np.m .0 != 0 && can_have_children(&nd) {
                    let dom = sink.model.dom.borrow();
                    let kids = dom.n(nd.m .0).children.clone();
                    let cyc = kids.iter().any(|k| dom.is_inclusive_ancestor(*k, np.m .0));
                    // the docs do not say whether text at the seam merges: avoid that case
                    let seam = match (dom.n(np.m .0).children.last(), kids.first()) {
                        (Some(l), Some(f)) => dom.is_text(*l) && dom.is_text(*f),
                        _ => false,
                    };
                    drop(dom);
                    if !cyc && !seam {
                        sink.reparent_children(&nd, &np);
                        stats.inc("direct_reparent_children");
                    }
                }
            },
            D_ADD_ATTRS => {
                let t = pick(op.a);
                if dom_is_elem(&t) {
                    sink.add_attrs_if_missing(&t, mk_attrs(op.b));
                    stats.inc("direct_add_attrs_if_missing");
                }
            },
            D_CLONE_OPTION => {
                let t = pick(op.a);
                if sink.model.dom.borrow().local_name(t.m .0) == Some("option") {
                    sink.maybe_clone_an_option_into_selectedcontent(&t);
                    stats.inc("direct_clone_option");
                }
            },
            D_DOCTYPE => {
                if !doctype_done && !elem_in_doc {
                    doctype_done = true;
                    sink.append_doctype_to_document(StrTendril::from_slice("html"), StrTendril::from_slice(&op.s), StrTendril::new());
                }
            },
            D_TEMPLATE_APPEND => {
                let t = pick(op.a);
                if sink.model.dom.borrow().is_html_elem_named(t.m .0, "template") {
                    let tc = sink.get_template_contents(&t);
                    if !op.s.is_empty() {
                        sink.append(&tc, NodeOrText::AppendText(StrTendril::from_slice(&op.s)));
                    }
                    hs.push(tc);
                    stats.inc("direct_template_contents");
                }
            },
            _ => {},
        }
    }
    if let Some((_, class, d)) = sink.first_diff.borrow().clone() {
        return Err(Violation::new(&class, d));
    }
    sink.compare().map_err(|(c, d)| Violation::new(&c, format!("final comparison: {d}")))?;
    Ok(sink.model.digest.get())
}

fn gen_direct(rng: &mut Rng, thorough: bool) -> Vec<DOp> {
    let n = rng.range(4, if thorough { 80 } else { 40 });
    let mut ops = vec![];
    // skeletons that make option mirroring reachable
    if rng.chance(1, 3) {
        // select(1) > [button(2) > selectedcontent(3)], option(4 selected) > text
        let sel = rng.below(2) as u32;
        ops.push(DOp { kind: D_CREATE_ELEM, a: 2, b: sel << 3, c: 0, s: String::new() }); // select (maybe multiple)
        ops.push(DOp { kind: D_CREATE_ELEM, a: 6, b: 0, c: 0, s: String::new() }); // button
        ops.push(DOp { kind: D_CREATE_ELEM, a: 5, b: 0, c: 0, s: String::new() }); // selectedcontent
        ops.push(DOp { kind: D_CREATE_ELEM, a: 3, b: 4, c: 0, s: String::new() }); // option selected
        ops.push(DOp { kind: D_APPEND_NODE, a: 1, b: 2, c: 0, s: String::new() });
        ops.push(DOp { kind: D_APPEND_NODE, a: 2, b: 3, c: 0, s: String::new() });
        ops.push(DOp { kind: D_APPEND_NODE, a: 1, b: 4, c: 0, s: String::new() });
        ops.push(DOp { kind: D_APPEND_TEXT, a: 4, b: 0, c: 0, s: "opt".into() });
        if rng.chance(1, 2) {
            // churn around the mirror: the enabled selectedcontent changes between two mirrorings
            // (a new one inserted ahead of it, the old one removed, `multiple` added), so anything
            // remembered from the first call is stale in the second
            for _ in 0..rng.range(2, 7) {
                match rng.below(8) {
                    0 | 1 | 2 => ops.push(DOp { kind: D_CLONE_OPTION, a: 4, b: 0, c: 0, s: String::new() }),
                    3 | 4 => {
                        // a new selectedcontent ahead of handle 3 / 2, or as the select's last child
                        let created = 1 + ops.iter().filter(|o| matches!(o.kind, D_CREATE_ELEM | D_CREATE_COMMENT | D_CREATE_PI)).count() as u32;
                        ops.push(DOp { kind: D_CREATE_ELEM, a: 5, b: 0, c: 0, s: String::new() });
                        match rng.below(3) {
                            0 => ops.push(DOp { kind: D_BEFORE_NODE, a: 3, b: created, c: 0, s: String::new() }),
                            1 => ops.push(DOp { kind: D_BEFORE_NODE, a: 2, b: created, c: 0, s: String::new() }),
                            _ => ops.push(DOp { kind: D_APPEND_NODE, a: 1, b: created, c: 0, s: String::new() }),
                        }
                    },
                    5 => ops.push(DOp { kind: D_REMOVE, a: *rng.pick(&[2u32, 3]), b: 0, c: 0, s: String::new() }),
                    6 => ops.push(DOp { kind: D_APPEND_TEXT, a: 4, b: 0, c: 0, s: "more".into() }),
                    _ => ops.push(DOp { kind: D_ADD_ATTRS, a: 1, b: 1 << 3, c: 0, s: String::new() }),
                }
            }
        }
    } else if rng.chance(1, 8) {
        // a wide parent: child lists around 32 / 64 entries, then look-ups of early and late children
        ops.push(DOp { kind: D_CREATE_ELEM, a: 0, b: 0, c: 0, s: String::new() }); // div = handle 1
        let k = *rng.pick(&[15u32, 16, 17, 30, 31, 32, 33, 34, 35, 36, 40, 63, 64, 65, 66, 70]);
        for i in 0..k {
            if rng.chance(1, 3) {
                ops.push(DOp { kind: D_CREATE_ELEM, a: 10, b: 0, c: 0, s: String::new() });
            } else {
                ops.push(DOp { kind: D_CREATE_COMMENT, a: 0, b: 0, c: 0, s: "c".into() });
            }
            ops.push(DOp { kind: D_APPEND_NODE, a: 1, b: 2 + i, c: 0, s: String::new() });
        }
        for _ in 0..rng.range(1, 6) {
            let early = 2 + rng.below(4) as u32;
            let any = 2 + rng.below(k as usize) as u32;
            let late = 1 + k - rng.below(3) as u32;
            let t = *rng.pick(&[early, early, any, late]);
            match rng.below(4) {
                0 | 1 => ops.push(DOp { kind: D_REMOVE, a: t, b: 0, c: 0, s: String::new() }),
                2 => ops.push(DOp { kind: D_BEFORE_TEXT, a: t, b: 0, c: 0, s: "t".into() }),
                _ => {
                    let created = 1 + ops.iter().filter(|o| matches!(o.kind, D_CREATE_ELEM | D_CREATE_COMMENT | D_CREATE_PI)).count() as u32;
                    ops.push(DOp { kind: D_CREATE_ELEM, a: 1, b: 0, c: 0, s: String::new() });
                    ops.push(DOp { kind: D_BEFORE_NODE, a: t, b: created, c: 0, s: String::new() });
                },
            }
        }
    }
    for _ in 0..n {
        let kind = rng.weighted(&[20, 4, 18, 10, 10, 8, 5, 8, 5, 6, 8, 1, 3, 2]) as u8;
        let s = if rng.chance(1, 8) { String::new() } else { rng.pick_str(&["t", "xy", " ", "é"]).to_string() };
        let span = (ops.len() as u32 + 2).max(2);
        let bias = |rng: &mut Rng| if rng.chance(2, 3) { span.saturating_sub(1 + rng.below(4) as u32) } else { rng.below(span as usize) as u32 };
        let (a, b, c) = match kind {
            D_CREATE_ELEM => (rng.below(ELEMS.len()) as u32, rng.below(1 << 14) as u32, 0),
            D_ADD_ATTRS => (bias(rng), rng.below(1 << 14) as u32, 0),
            _ => (bias(rng), bias(rng), rng.below(64) as u32),
        };
        ops.push(DOp { kind, a, b, c, s });
    }
    ops
}

// ------------------------------------------------------------------ the world

#[derive(Clone)]
enum RCase {
    Html { input: String, cuts: Vec<usize>, scripting: bool },
    Xml { input: String, cuts: Vec<usize> },
    Direct { ops: Vec<DOp> },
}

fn emit(c: &RCase) -> Value {
    match c {
        RCase::Html { input, cuts, scripting } => json!({"kind": "html-parse", "input": input, "cuts": cuts, "scripting": scripting}),
        RCase::Xml { input, cuts } => json!({"kind": "xml-parse", "input": input, "cuts": cuts}),
        RCase::Direct { ops } => json!({"kind": "direct", "ops": ops.iter().map(|o| json!([o.kind, o.a, o.b, o.c, o.s])).collect::<Vec<_>>(),
            "legend": "kind: 0 create_element(ELEMS[a], attrs mask b) 1 create_comment 2 append(node a <- node b) 3 append(text) 4 append_before_sibling(sibling a, node b) 5 append_before_sibling(text) 6 append_based_on_parent_node 7 remove_from_parent 8 reparent_children 9 add_attrs_if_missing 10 maybe_clone_an_option 11 doctype 12 get_template_contents+append 13 create_pi; handles index the list of created nodes (0 = document)"}),
    }
}

fn parse(v: &Value) -> RCase {
    let cuts = || v["cuts"].as_array().map(|a| a.iter().map(|x| x.as_u64().unwrap_or(0) as usize).collect()).unwrap_or_default();
    match v["kind"].as_str().unwrap_or("") {
        "xml-parse" => RCase::Xml { input: v["input"].as_str().unwrap_or("").into(), cuts: cuts() },
        "direct" => RCase::Direct {
            ops: v["ops"]
                .as_array()
                .map(|a| {
                    a.iter()
                        .map(|o| DOp {
                            kind: o[0].as_u64().unwrap_or(0) as u8,
                            a: o[1].as_u64().unwrap_or(0) as u32,
                            b: o[2].as_u64().unwrap_or(0) as u32,
                            c: o[3].as_u64().unwrap_or(0) as u32,
                            s: o[4].as_str().unwrap_or("").to_string(),
                        })
                        .collect()
                })
                .unwrap_or_default(),
        },
        _ => RCase::Html { input: v["input"].as_str().unwrap_or("").into(), cuts: cuts(), scripting: v["scripting"].as_bool().unwrap_or(true) },
    }
}

fn chunks(input: &str, cuts: &[usize]) -> Vec<StrTendril> {
    let mut byte_of: Vec<usize> = input.char_indices().map(|(b, _)| b).collect();
    byte_of.push(input.len());
    let n = byte_of.len() - 1;
    let mut bounds = vec![0];
    let mut sorted: Vec<usize> = cuts.iter().map(|c| (*c).min(n)).collect();
    sorted.sort_unstable();
    bounds.extend(sorted);
    bounds.push(n);
    bounds.windows(2).map(|w| StrTendril::from_slice(&input[byte_of[w[0]]..byte_of[w[1]]])).collect()
}

fn run_case(c: &RCase, emulate: bool, stats: &mut Stats) -> Result<u64, Violation> {
    match c {
        RCase::Direct { ops } => run_direct(ops, emulate, stats),
        RCase::Html { input, cuts, scripting } => {
            let sink = TeeSink::new(emulate, false);
            let mut opts = html5ever::driver::ParseOpts::default();
            opts.tree_builder.scripting_enabled = *scripting;
            let mut p = html5ever::driver::parse_document(sink, opts);
            for ch in chunks(input, cuts) {
                p.process(ch);
            }
            let sink = p.finish();
            finish(sink, stats)
        },
        RCase::Xml { input, cuts } => {
            let sink = TeeSink::new(emulate, true);
            let mut p = xml5ever::driver::parse_document(sink, Default::default());
            for ch in chunks(input, cuts) {
                p.process(ch);
            }
            let sink = p.finish();
            finish(sink, stats)
        },
    }
}

fn finish(sink: TeeSink, stats: &mut Stats) -> Result<u64, Violation> {
    stats.add("recorded_sink_calls", sink.calls.get());
    stats.add("probe_foster_parent_insert", sink.model.stats_foster.get());
    stats.add("probe_reparent_children", sink.model.stats_reparent.get());
    stats.add("probe_append_before_sibling", sink.model.stats_before_sibling.get());
    stats.add("probe_add_attrs_if_missing", sink.model.stats_add_attrs.get());
    stats.add("probe_remove_from_parent", sink.model.stats_remove.get());
    stats.add("probe_clone_option", sink.model.stats_clone_option.get());
    stats.add("F16_serializer_failed_at_one_callback", sink.ser_faults.get());
    stats.add("subtrees_serialised_with_IncludeNode", sink.ser_subtrees.get());
    if let Some((_, class, d)) = sink.first_diff.borrow().clone() {
        return Err(Violation::new(&class, d));
    }
    sink.compare().map_err(|(c, d)| Violation::new(&c, format!("final comparison: {d}")))?;
    Ok(sink.model.digest.get())
}

const SELECT_SKELETONS: &[&str] = &[
    "<select><button><selectedcontent></selectedcontent></button><option selected>a<b>x</b></option><option>c</option></select>",
    "<select><button><selectedcontent>",
    "<select><selectedcontent></selectedcontent><optgroup><option selected>",
    "<select multiple><button><selectedcontent></button><option selected>q</option>",
    "<select><div><selectedcontent></selectedcontent></div><button><selectedcontent></button><option selected>z",
    "<select><option selected>first<selectedcontent>",
    "<select><button><selectedcontent></button><optgroup><optgroup><option selected>n</option>",
    "<select><button><selectedcontent>old</selectedcontent></button><option selected><i>k</i>",
    "<select><datalist><option selected>d</option></datalist><button><selectedcontent>",
];

pub struct RcDomWorld;

impl RcDomWorld {
    fn gen_case(&self, rng: &mut Rng, thorough: bool) -> RCase {
        match rng.weighted(&[40, 15, 45]) {
            0 => {
                let size = match pick_size(rng, thorough) {
                    SizeClass::Huge => SizeClass::Large,
                    s => s,
                };
                let mut input = if rng.chance(1, 120) { crate::gen_html::gen_scale_input(rng) } else { gen_html(rng, size) };
                if rng.chance(1, 4) {
                    let at = rng.below(input.chars().count() + 1);
                    let byte = input.char_indices().nth(at).map(|(b, _)| b).unwrap_or(input.len());
                    if rng.chance(1, 2) {
                        input.insert_str(byte, rng.pick_str(SELECT_SKELETONS));
                    } else {
                        let mut sc = String::new();
                        crate::gen_html::gen_select_scenario(rng, &mut sc);
                        input.insert_str(byte, &sc);
                    }
                }
                let n = input.chars().count();
                let cuts = (0..rng.small(3)).map(|_| rng.below(n + 1)).collect();
                RCase::Html { input, cuts, scripting: rng.chance(2, 3) }
            },
            1 => {
                let size = match pick_size(rng, thorough) {
                    SizeClass::Huge => SizeClass::Large,
                    s => s,
                };
                let input = gen_xml(rng, size);
                let n = input.chars().count();
                let cuts = (0..rng.small(3)).map(|_| rng.below(n + 1)).collect();
                RCase::Xml { input, cuts }
            },
            _ => RCase::Direct { ops: gen_direct(rng, thorough) },
        }
    }
}

fn candidates(c: &RCase) -> Vec<RCase> {
    let mut out = vec![];
    match c {
        RCase::Direct { ops } => {
            let n = ops.len();
            // removing an operation shifts handle indices of later creations: only remove from the end
            // or replace by a no-op (kind 255 % 14 = 3 -> keep indices by substituting a comment creation)
            for k in (0..n).rev() {
                let mut v = ops.clone();
                v.truncate(k);
                out.push(RCase::Direct { ops: v });
                if out.len() > 40 {
                    break;
                }
            }
            for i in 0..n {
                if ops[i].kind == D_NOP {
                    continue;
                }
                let creates = matches!(ops[i].kind % D_KINDS, D_CREATE_ELEM | D_CREATE_COMMENT | D_CREATE_PI | D_TEMPLATE_APPEND);
                let mut v = ops.clone();
                if creates {
                    if ops[i].kind % D_KINDS != D_CREATE_COMMENT {
                        v[i] = DOp { kind: D_CREATE_COMMENT, a: 0, b: 0, c: 0, s: "c".into() };
                        out.push(RCase::Direct { ops: v });
                    }
                } else {
                    v[i] = DOp { kind: D_NOP, a: 0, b: 0, c: 0, s: String::new() };
                    if v[i] != ops[i] {
                        out.push(RCase::Direct { ops: v });
                    }
                }
            }
        },
        RCase::Html { input, cuts, scripting } => {
            if !cuts.is_empty() {
                out.push(RCase::Html { input: input.clone(), cuts: vec![], scripting: *scripting });
            }
            if !*scripting {
                out.push(RCase::Html { input: input.clone(), cuts: cuts.clone(), scripting: true });
            }
            for (s2, start, len) in string_candidates(input) {
                let cuts2 = cuts.iter().map(|&k| if k <= start { k } else if k >= start + len { k - len } else { start }).collect();
                out.push(RCase::Html { input: s2, cuts: cuts2, scripting: *scripting });
            }
        },
        RCase::Xml { input, cuts } => {
            if !cuts.is_empty() {
                out.push(RCase::Xml { input: input.clone(), cuts: vec![] });
            }
            for (s2, start, len) in string_candidates(input) {
                let cuts2 = cuts.iter().map(|&k| if k <= start { k } else if k >= start + len { k - len } else { start }).collect();
                out.push(RCase::Xml { input: s2, cuts: cuts2 });
            }
        },
    }
    out
}

impl World for RcDomWorld {
    fn property(&self) -> &'static str {
        "C20"
    }
    fn world_name(&self) -> &'static str {
        "rcdom-history"
    }
    fn gen(&self, rng: &mut Rng, thorough: bool) -> Value {
        emit(&self.gen_case(rng, thorough))
    }
    fn check(&self, case: &Value, stats: &mut Stats, toggles: &[String]) -> (CaseInfo, Result<(), Violation>) {
        let c = parse(case);
        let key = fnv1a(case.to_string().as_bytes());
        let emulate = toggles.iter().any(|t| t == "rcdom_never_mirrors_options");
        stats.inc(match &c {
            RCase::Html { .. } => "cases_recorded_html_parse",
            RCase::Xml { .. } => "cases_recorded_xml_parse",
            RCase::Direct { .. } => "cases_direct_history",
        });
        let nontrivial = match &c {
            RCase::Html { input, .. } | RCase::Xml { input, .. } => input.len() > 3,
            RCase::Direct { ops } => ops.len() > 3,
        };
        match run_case(&c, emulate, stats) {
            Ok(d) => (CaseInfo { key, nontrivial, digest: d }, Ok(())),
            Err(v) => (CaseInfo { key, nontrivial, digest: mix(1, fnv1a(v.class.as_bytes())) }, Err(v)),
        }
    }
    fn minimise(&self, case: &Value, class: &str, budget: usize, toggles: &[String]) -> Value {
        let c = parse(case);
        let emulate = toggles.iter().any(|t| t == "rcdom_never_mirrors_options");
        let mut fails = |x: &RCase| -> bool {
            let mut st = Stats::default();
            match std::panic::catch_unwind(std::panic::AssertUnwindSafe(|| run_case(x, emulate, &mut st))) {
                Ok(Err(v)) => v.class == class,
                Ok(Ok(_)) => false,
                Err(_) => class == "panic",
            }
        };
        let mut m = greedy_min(c, &candidates, &mut fails, budget);
        // no-op entries never create a handle, so dropping them leaves every later index unchanged
        if let RCase::Direct { ops } = &m {
            let compact = RCase::Direct { ops: ops.iter().filter(|o| o.kind != D_NOP).cloned().collect() };
            if fails(&compact) {
                m = compact;
            }
        }
        emit(&m)
    }
    fn rule(&self) -> String {
        "case = (a) recorded history: every TreeSink call of a real HTML or XML parse of a generated input (customizable-select skeletons and generated select scenarios spliced in, one in 120 from the scale family) forwarded to both RcDom and the abstract DOM model by a tee sink, or (b) direct history: 4..90 seeded contract-valid TreeSink calls (create_*, append node/text, append_before_sibling with text merge / node from the same or another parent, append_based_on_parent_node, remove_from_parent, reparent_children, add_attrs_if_missing with overlapping names, template contents, option mirroring; wide parents of 15..70 children with look-ups of early / middle / late children; churn around the option mirror); every RcDom node must be reached exactly once; after every mutating call: structural equality, parent links of every node ever created, serializer callbacks vs. model preorder walk; non-trivial = input longer than 3 chars / more than 3 operations; distinct = distinct hash of the case".into()
    }
    fn components(&self) -> Value {
        json!({"real": ["markup5ever_rcdom::RcDom (all TreeSink methods)", "markup5ever_rcdom::SerializableHandle::serialize", "html5ever / xml5ever parsers producing the recorded histories"],
               "stub": ["TeeSink (forwards each call to both sinks, maps handles pairwise)", "abstract DOM model (ModelSink/Dom)", "recording Serializer", "direct-history driver (validity = the C05 predicates)"]})
    }
    fn assumptions(&self) -> Vec<String> {
        vec![
            "the abstract model implements the TreeSink documentation and the WHATWG 'maybe clone an option into selectedcontent' steps literally".into(),
            "reparent_children where text would meet text at the seam is not generated (the documentation does not say whether it merges)".into(),
            "seeded search: a clean batch is evidence, not proof".into(),
        ]
    }
    fn reports_panics(&self) -> bool {
        true
    }
    fn reports_crashes(&self) -> bool {
        false
    }
    fn expected_probes(&self) -> Vec<&'static str> {
        vec!["probe_foster_parent_insert", "probe_reparent_children", "probe_add_attrs_if_missing", "probe_clone_option", "direct_before_sibling_node_from_same_parent", "direct_before_sibling_text", "direct_reparent_children", "direct_clone_option", "direct_template_contents"]
    }
}
