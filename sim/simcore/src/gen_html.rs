//! Grammar-weighted generator of (mostly malformed) HTML.

use crate::rng::Rng;

pub const TAGS: &[&str] = &[
    // structure
    "html", "head", "body", "frameset", "frame", "noframes", "title", "base", "link", "meta",
    "style", "script", "noscript", "template",
    // flow / special
    "div", "p", "span", "h1", "h2", "h6", "ul", "ol", "li", "dl", "dt", "dd", "address", "article",
    "aside", "blockquote", "center", "details", "dialog", "dir", "fieldset", "figcaption",
    "figure", "footer", "header", "hgroup", "main", "menu", "nav", "section", "summary", "search",
    "pre", "listing", "textarea", "plaintext", "xmp", "iframe", "noembed", "form", "button",
    "input", "keygen", "hr", "br", "img", "image", "area", "embed", "wbr", "param", "source",
    "track", "applet", "marquee", "object", "isindex",
    // formatting
    "a", "b", "big", "code", "em", "font", "i", "nobr", "s", "small", "strike", "strong", "tt",
    "u",
    // tables
    "table", "caption", "colgroup", "col", "tbody", "tfoot", "thead", "tr", "td", "th",
    // select family
    "select", "option", "optgroup", "selectedcontent", "datalist",
    // ruby
    "ruby", "rb", "rt", "rtc", "rp",
    // foreign
    "svg", "math", "mi", "mo", "mn", "ms", "mtext", "annotation-xml", "foreignObject", "desc",
    "foreignobject", "g", "path", "mglyph", "malignmark", "circle", "clipPath", "clippath",
    // unknown
    "x", "custom-el", "xyz",
];

pub const RAW_TAGS: &[&str] = &[
    "script", "style", "textarea", "title", "xmp", "iframe", "noembed", "noframes", "noscript",
    "plaintext",
];

pub const ATTR_NAMES: &[&str] = &[
    "id", "class", "href", "type", "name", "value", "charset", "http-equiv", "content", "encoding",
    "shadowrootmode", "shadowrootclonable", "shadowrootserializable", "shadowrootdelegatesfocus",
    "selected", "multiple", "color", "face", "size", "xlink:href", "xml:lang", "xmlns",
    "xmlns:xlink", "definitionurl", "definitionURL", "viewbox", "viewBox", "action", "prompt",
    "a", "b", "x", "nonce", "src", "hidden", "disabled",
];

pub const ENTITY_NAMES: &[&str] = &[
    "amp", "amp;", "lt", "lt;", "gt;", "quot;", "apos;", "nbsp;", "nbsp", "not", "not;", "notin;",
    "notit;", "noti", "copy", "copy;", "AMP", "AMP;", "Aacute;", "Aacute", "aacute",
    "NotEqualTilde;", "NotEqualTilde", "acE;", "nvlt;", "bne;", "fjlig;", "ThickSpace;", "lang;",
    "zwnj;", "zwj;", "x", "xyz;", "am", "a", "ZZZ;", "l", "g", "g;", "gt", "para", "parag",
    "para;", "ang;", "ange;", "angle;", "CounterClockwiseContourIntegral;",
    "CounterClockwiseContourIntegra", "sup1", "sup1;", "frac12", "frac12;", "THORN", "thorn;",
];

const PUBLIC_IDS: &[&str] = &[
    "-//W3C//DTD HTML 4.01//EN",
    "-//W3C//DTD HTML 4.01 Transitional//EN",
    "-//W3C//DTD XHTML 1.0 Transitional//EN",
    "-//W3C//DTD XHTML 1.0 Frameset//EN",
    "-//W3C//DTD HTML 4.01 Frameset//EN",
    "-//W3O//DTD W3 HTML Strict 3.0//EN//",
    "-/W3C/DTD HTML 4.0 Transitional/EN",
    "HTML",
    "-//IETF//DTD HTML 2.0//EN",
    "-//W3C//DTD HTML 3.2//",
    "x",
    "",
];
const SYSTEM_IDS: &[&str] = &[
    "http://www.w3.org/TR/html4/strict.dtd",
    "http://www.ibm.com/data/dtd/v11/ibmxhtml1-transitional.dtd",
    "about:legacy-compat",
    "x",
    "",
];

pub const ODD_CHARS: &[char] = &[
    '\r', '\n', '\r', '\n', '\0', '\u{feff}', '\t', '\x0C', ' ', '\u{1}', '\u{b}', '\u{7f}',
    '\u{80}', '\u{9f}', '\u{a0}', '\u{fdd0}', '\u{fffe}', '\u{ffff}', '\u{1fffe}', '\u{10ffff}',
    '\u{e9}', '\u{4e2d}', '\u{1f600}', '\u{fffd}', '<', '>', '&', '"', '\'', '=', '/', '!', '-',
    '?', '`', ';', '#', ']', '[',
];

fn push_ws(rng: &mut Rng, out: &mut String) {
    match rng.below(10) {
        0 => out.push('\n'),
        1 => out.push('\r'),
        2 => out.push_str("\r\n"),
        3 => out.push('\t'),
        4 => out.push('\x0C'),
        5 => out.push_str("\n\n"),
        _ => out.push(' '),
    }
}

fn maybe_ws(rng: &mut Rng, out: &mut String) {
    if rng.chance(1, 4) {
        push_ws(rng, out);
        if rng.chance(1, 5) {
            push_ws(rng, out);
        }
    }
}

pub fn rand_case(rng: &mut Rng, s: &str, out: &mut String) {
    let mode = rng.below(6);
    for c in s.chars() {
        let up = match mode {
            0 => true,
            1 => rng.chance(1, 2),
            _ => false,
        };
        if up {
            out.push(c.to_ascii_uppercase());
        } else {
            out.push(c);
        }
    }
}

pub fn gen_charref(rng: &mut Rng, out: &mut String) {
    out.push('&');
    match rng.below(10) {
        0..=4 => out.push_str(rng.pick_str(ENTITY_NAMES)),
        5 | 6 => {
            out.push('#');
            let n: u32 = match rng.below(12) {
                0 => 0,
                1 => 0x80 + rng.below(0x20) as u32,
                2 => 0xD800 + rng.below(0x800) as u32,
                3 => 0x10FFFF + rng.below(3) as u32,
                4 => 0xFDD0 + rng.below(0x20) as u32,
                5 => 0xFFFE + rng.below(2) as u32,
                6 => 10,
                7 => 13,
                8 => 0xFFFF_FFFF - rng.below(3) as u32,
                _ => rng.below(0x3000) as u32,
            };
            if rng.chance(1, 2) {
                out.push(if rng.chance(1, 2) { 'x' } else { 'X' });
                out.push_str(&format!("{:x}", n));
            } else {
                out.push_str(&format!("{}", n));
            }
            if rng.chance(1, 12) {
                out.push_str("99999999999999");
            }
            if rng.chance(3, 4) {
                out.push(';');
            }
        },
        7 => {
            out.push('#');
            if rng.chance(1, 2) {
                out.push('x');
            }
            if rng.chance(1, 2) {
                out.push(';');
            }
        },
        8 => {
            // alphanumeric junk (bogus name), maybe with semicolon
            for _ in 0..rng.range(1, 6) {
                out.push(*rng.pick(&['a', 'Z', '1', 'q', 'm', 'p']));
            }
            if rng.chance(1, 2) {
                out.push(';');
            }
        },
        _ => {},
    }
    // what follows a reference matters (attribute legacy rule, CR handling)
    match rng.below(12) {
        0 => out.push('='),
        1 => out.push('\r'),
        2 => out.push_str("\r\n"),
        3 => out.push('\n'),
        4 => out.push('a'),
        5 => out.push('1'),
        6 => out.push('&'),
        _ => {},
    }
}

pub fn gen_text(rng: &mut Rng, out: &mut String, max: usize) {
    let n = rng.small(max);
    for _ in 0..=n {
        match rng.below(16) {
            0 => out.push(*rng.pick(ODD_CHARS)),
            1 => gen_charref(rng, out),
            2 => push_ws(rng, out),
            3 => {
                // a long plain run so that the 16-byte SIMD stride is taken
                let len = *rng.pick(&[15usize, 16, 17, 31, 32, 33, 40, 63, 64, 65, 100, 127, 128, 129, 200]);
                let stop = *rng.pick(&['<', '&', '\r', '\0', '\n', 'z', '\u{e9}']);
                for i in 0..len {
                    if i == len / 2 && rng.chance(1, 3) {
                        out.push('\n');
                    } else {
                        out.push((b'a' + (i % 26) as u8) as char);
                    }
                }
                out.push(stop);
            },
            4 => out.push_str("\r\n"),
            5 => out.push('\r'),
            _ => {
                for _ in 0..rng.range(1, 5) {
                    out.push(*rng.pick(&['a', 'b', 'c', ' ', 'x', '1', 'é']));
                }
            },
        }
    }
}

fn gen_attr_value_body(rng: &mut Rng, out: &mut String, quote: Option<char>) {
    let n = rng.small(5);
    for _ in 0..n {
        match rng.below(14) {
            0 => gen_charref(rng, out),
            1 => {
                let c = *rng.pick(ODD_CHARS);
                if Some(c) != quote && !(quote.is_none() && (c == '>' || c.is_whitespace())) {
                    out.push(c);
                }
            },
            2 if quote.is_some() => push_ws(rng, out),
            3 => out.push_str(rng.pick_str(&[
                "text/html",
                "utf-8",
                "content-type",
                "Content-Type",
                "text/html; charset=utf-8",
                "open",
                "closed",
                "application/xhtml+xml",
                "hidden",
                "HIDDEN",
            ])),
            4 => {
                let n = if rng.chance(1, 6) { *rng.pick(&[63usize, 64, 65, 130]) } else { rng.range(14, 20) };
                for i in 0..n {
                    out.push((b'a' + (i % 26) as u8) as char);
                }
            },
            _ => {
                for _ in 0..rng.range(1, 4) {
                    out.push(*rng.pick(&['a', 'b', 'v', '1', '-']));
                }
            },
        }
    }
}

pub fn gen_meta_content(rng: &mut Rng, out: &mut String) {
    // junk* "charset" ws* ("=" ws* (quoted | unquoted | eps) | junk)
    // non-ASCII junk matters: characters whose case mapping changes their byte length
    // (U+0130, the Kelvin sign U+212A) shift every byte offset computed on a case-folded copy
    let junk = ["text/html", ";", " ", "x", "char", "charse", "CHARSET", "\t", ";;", "\u{130}", "\u{212a}", "é", "ß", "\u{1c5}", "中", "\u{3a3}"];
    for _ in 0..rng.small(3) {
        out.push_str(rng.pick_str(&junk));
    }
    if rng.chance(1, 60) {
        // a long value: the charset parameter lies beyond (or across) a size threshold
        let n = near_threshold(rng).min(9_000);
        let filler = *rng.pick(&["x", "x", "é", "中", "; ", "a=b;"]);
        let start = out.len();
        while out.len() - start + filler.len() <= n.saturating_sub(rng.below(12)) {
            out.push_str(filler);
        }
    }
    let mut kw = String::new();
    rand_case(rng, "charset", &mut kw);
    if rng.chance(1, 10) {
        kw.truncate(rng.below(7));
    }
    out.push_str(&kw);
    // whitespace written literally or as a character reference (a CR survives only that way)
    const WS: &[&str] = &[" ", "\t", "\n", "\x0C", "\r", " ", "\t", "&#13;", "&#xD;", "&#9;", "&#10;", "&#12;", "&#32;", "&#x20;", "&#xA;", "&#11;", "\u{a0}"];
    for _ in 0..rng.small(2) {
        out.push_str(rng.pick_str(WS));
    }
    if rng.chance(5, 6) {
        out.push('=');
        for _ in 0..rng.small(2) {
            out.push_str(rng.pick_str(WS));
        }
        let label = *rng.pick(&["utf-8", "UTF-8", "latin1", "x", "", "windows-1252", "a b"]);
        match rng.below(6) {
            0 => {
                out.push('\'');
                out.push_str(label);
                if rng.chance(4, 5) {
                    out.push('\'');
                }
            },
            1 => {
                // the content attribute itself is usually double-quoted: use &quot;
                out.push_str("&quot;");
                out.push_str(label);
                if rng.chance(4, 5) {
                    out.push_str("&quot;");
                }
            },
            _ => out.push_str(label),
        }
        if rng.chance(1, 3) {
            out.push_str(rng.pick_str(&[";", " ", "; x=y", " charset=other", ";charset=b"]));
        }
    } else {
        out.push_str(rng.pick_str(&["x", ";", " charset=utf-8", ""]));
    }
}

pub fn gen_attrs(rng: &mut Rng, tag: &str, out: &mut String) {
    let n = if rng.chance(1, 2) { 0 } else { rng.small(4) + 1 };
    for _ in 0..n {
        push_ws(rng, out);
        let name = if tag == "meta" && rng.chance(2, 3) {
            *rng.pick(&["charset", "http-equiv", "content", "content", "http-equiv"])
        } else if tag == "template" && rng.chance(1, 2) {
            *rng.pick(&["shadowrootmode", "shadowrootclonable"])
        } else if rng.chance(1, 12) {
            ""
        } else {
            *rng.pick(ATTR_NAMES)
        };
        if name.is_empty() {
            out.push(*rng.pick(&['"', '\'', '<', '=', '\0', 'Q', '/']));
        } else {
            rand_case(rng, name, out);
        }
        if rng.chance(1, 6) {
            continue;
        }
        maybe_ws(rng, out);
        out.push('=');
        maybe_ws(rng, out);
        let q = match rng.below(5) {
            0 | 1 => Some('"'),
            2 => Some('\''),
            _ => None,
        };
        if let Some(q) = q {
            out.push(q);
        }
        if name == "http-equiv" && rng.chance(3, 4) {
            rand_case(rng, "content-type", out);
        } else if name == "content" && rng.chance(3, 4) {
            let mut s = String::new();
            gen_meta_content(rng, &mut s);
            for c in s.chars() {
                if Some(c) == q || (q.is_none() && (c.is_whitespace() || c == '>')) {
                    continue;
                }
                out.push(c);
            }
        } else if name == "shadowrootmode" && rng.chance(3, 4) {
            out.push_str(rng.pick_str(&["open", "closed", "OPEN", "x"]));
        } else if name == "type" && tag == "input" && rng.chance(1, 2) {
            rand_case(rng, "hidden", out);
        } else {
            gen_attr_value_body(rng, out, q);
        }
        if let Some(q) = q {
            if rng.chance(19, 20) {
                out.push(q);
            }
        }
    }
    maybe_ws(rng, out);
}

pub fn gen_start_tag(rng: &mut Rng, tag: &str, out: &mut String) {
    out.push('<');
    rand_case(rng, tag, out);
    gen_attrs(rng, tag, out);
    if rng.chance(1, 8) {
        out.push('/');
    }
    if rng.chance(29, 30) {
        out.push('>');
    }
}

pub fn gen_end_tag(rng: &mut Rng, tag: &str, out: &mut String) {
    out.push_str("</");
    rand_case(rng, tag, out);
    if rng.chance(1, 10) {
        gen_attrs(rng, tag, out);
    } else {
        maybe_ws(rng, out);
    }
    if rng.chance(1, 20) {
        out.push('/');
    }
    if rng.chance(29, 30) {
        out.push('>');
    }
}

pub fn gen_comment(rng: &mut Rng, out: &mut String) {
    match rng.below(10) {
        0 => out.push_str("<!-->"),
        1 => out.push_str("<!--->"),
        2 => {
            out.push_str("<?");
            gen_text(rng, out, 2);
            out.push('>');
        },
        3 => {
            out.push_str("</ ");
            gen_text(rng, out, 2);
            out.push('>');
        },
        4 => {
            out.push_str("<!");
            gen_text(rng, out, 2);
            out.push('>');
        },
        _ => {
            out.push_str("<!--");
            for _ in 0..rng.small(4) {
                match rng.below(10) {
                    0 => out.push_str("--"),
                    1 => out.push_str("<!--"),
                    2 => out.push_str("--!"),
                    3 => out.push('-'),
                    4 => push_ws(rng, out),
                    5 => out.push('\0'),
                    6 => out.push_str("<!"),
                    7 => out.push('<'),
                    _ => out.push_str("c "),
                }
            }
            out.push_str(rng.pick_str(&["-->", "-->", "-->", "--!>", "->", "--", ""]));
        },
    }
}

pub fn gen_doctype(rng: &mut Rng, out: &mut String) {
    out.push_str("<!");
    rand_case(rng, "doctype", out);
    if rng.chance(9, 10) {
        push_ws(rng, out);
    }
    if rng.chance(9, 10) {
        { let n = rng.pick_str(&["html", "html", "a", "svg", "\0"]); rand_case(rng, n, out); }
    }
    if rng.chance(1, 2) {
        // The look-ahead for PUBLIC / SYSTEM happens right after this whitespace
        push_ws(rng, out);
        let kw = *rng.pick(&["public", "system", "publi", "systemx", "p"]);
        rand_case(rng, kw, out);
        maybe_ws(rng, out);
        let q = *rng.pick(&['"', '\'']);
        if rng.chance(9, 10) {
            out.push(q);
            if kw == "system" {
                out.push_str(rng.pick_str(SYSTEM_IDS));
            } else {
                { let n = rng.pick_str(PUBLIC_IDS); rand_case(rng, n, out); }
            }
            if rng.chance(1, 6) {
                push_ws(rng, out);
            }
            if rng.chance(9, 10) {
                out.push(q);
            }
        }
        if rng.chance(1, 2) {
            maybe_ws(rng, out);
            let q = *rng.pick(&['"', '\'']);
            out.push(q);
            out.push_str(rng.pick_str(SYSTEM_IDS));
            out.push(q);
        }
    }
    maybe_ws(rng, out);
    if rng.chance(1, 10) {
        out.push_str("junk");
    }
    if rng.chance(19, 20) {
        out.push('>');
    }
}

pub fn gen_cdata(rng: &mut Rng, out: &mut String) {
    out.push_str(rng.pick_str(&["<![CDATA[", "<![CDATA[", "<![cdata[", "<![CDATA", "<![CDAT"]));
    for _ in 0..rng.small(4) {
        match rng.below(8) {
            0 => out.push(']'),
            1 => out.push_str("]]"),
            2 => out.push('\0'),
            3 => push_ws(rng, out),
            4 => out.push_str("]>"),
            _ => out.push_str("cd"),
        }
    }
    out.push_str(rng.pick_str(&["]]>", "]]>", "]]]>", "]>", ""]));
}

fn gen_raw_body(rng: &mut Rng, tag: &str, out: &mut String) {
    for _ in 0..rng.small(5) {
        match rng.below(14) {
            0 => out.push_str("<!--"),
            1 => out.push_str("-->"),
            2 => out.push_str("<script"),
            3 => out.push_str("</script"),
            4 => {
                out.push_str("</");
                rand_case(rng, tag, out);
                if rng.chance(1, 2) {
                    out.push('x');
                }
            },
            5 => out.push('<'),
            6 => out.push_str("</"),
            7 => gen_charref(rng, out),
            8 => push_ws(rng, out),
            9 => out.push('\0'),
            10 => out.push('-'),
            11 => out.push_str("<!-"),
            _ => out.push_str("r "),
        }
    }
}

fn gen_node(rng: &mut Rng, out: &mut String, depth: usize) {
    match rng.below(24) {
        0..=8 => {
            let tag = *rng.pick(TAGS);
            gen_start_tag(rng, tag, out);
            if matches!(tag, "pre" | "listing" | "textarea") && rng.chance(1, 2) {
                // "a line feed right after the start tag is dropped": the line feed in every
                // spelling, and what may sit between the tag and it
                out.push_str(rng.pick_str(&[
                    "\n", "\r\n", "\r", "&#10;", "&#10", "&#xA;", "&#xa", "&#010", "&NewLine;", "&#13;", "&#13;\n", "\n\n", "<!---->\n", "\0\n", "&#10x", "&#xAz",
                    "&\n", " \n", "\u{feff}\n", "&amp\n",
                ]));
            }
            if RAW_TAGS.contains(&tag) {
                gen_raw_body(rng, tag, out);
                if rng.chance(7, 8) {
                    gen_end_tag(rng, tag, out);
                }
                return;
            }
            if depth > 0 {
                for _ in 0..rng.small(3) {
                    gen_node(rng, out, depth - 1);
                }
            }
            if rng.chance(3, 5) {
                gen_end_tag(rng, tag, out);
            }
        },
        9..=11 => {
            let tag = *rng.pick(TAGS);
            gen_end_tag(rng, tag, out);
        },
        12..=16 => gen_text(rng, out, 4),
        17 | 18 => gen_comment(rng, out),
        19 => gen_doctype(rng, out),
        20 => gen_cdata(rng, out),
        21 if rng.chance(1, 10) => gen_select_scenario(rng, out),
        21 if rng.chance(1, 20) => gen_frameset_scenario(rng, out),
        21 => {
            // table / select / formatting skeletons that stress the adoption agency etc.
            let skel = *rng.pick(&[
                "<table><tr><td>",
                "<table>x<b>",
                "<a><b><p></a>",
                "<b><i><u><p></b>",
                "<select><option>",
                "<select><button><selectedcontent></button><option selected>",
                "<svg><foreignObject><p>",
                "<math><mi><b>",
                "<math><annotation-xml encoding=text/html><div>",
                "<template><tr>",
                "<frameset><frame>",
                "</body>x",
                "</html> ",
                "<pre>\n",
                "<textarea>\r\n",
                "<listing>\r",
                "<div><template shadowrootmode=open>",
                "<table><caption><select>",
                "<ruby><rb><rtc>",
                "<form><table><form><input type=hidden>",
                "<li><li><dd><dt>",
                "<button><button>",
                "<nobr><nobr>",
                "<h1><h2>",
                "<svg><desc><table>",
                "<table><colgroup><col><template>",
                "<body><frameset>",
                "<head></head><meta charset=x>",
                "<noscript><link>",
                "<svg><script>",
                "<a><table><a>",
                "<font><p><font><font><font>",
                // adoption agency / foster parenting with an override target, foreign elements that
                // carry the local name of an HTML special element (namespace checks everywhere)
                "<table><a><div><svg><template></a>",
                "<table><b><p><math><template></b>",
                "<table><tr><i><p><svg><table></i>",
                "<a><svg><a></a>",
                "<b><math><mi><b></b>",
                "<svg><template><div>",
                "<math><template>x</template>",
                "<svg><title><table>",
                "<svg><select><option>",
                "<math><form><input>",
                "<svg><html><body>",
                "<svg><head></svg>",
                "<svg><script></svg>x",
                "<svg><textarea></textarea>",
                "<svg><frameset>",
                "<table><svg><template><td>",
                "<select><svg><option>",
                "<template><svg><template></template></svg>",
                "<table><td><a><table></a>",
                "<table><caption><b><table></b>",
                "<p><b><table><p></b>",
                "<b><table><b></b><td></b>",
                "<i><b><table></i></b>x",
                "<form><svg><form></svg></form>",
                // form owner set + foreign elements named like form controls
                "<form><svg><input>",
                "<form><math><button>",
                "<form><svg><select></svg><input>",
                "<table><form><svg><textarea>",
                "<form><math><mi><input></mi><fieldset>",
                "<form><svg><object><output><img>",
                // Noah's ark: the 4th identical formatting element evicts the 1st from the list
                "<b><b><b><b>x</b></b></b>",
                "<i><b><b><b><b></b><div>x</i>",
                "<p><b><b><b><b>x</b></b></b><script></script>y",
                "<a><font><font><font><font><p></a>",
                "<table><b><b><b><b><tr></b>x",
                "<nobr><i><i><i><i><i></nobr><div></i>",
                "<button><svg><button>",
                "<li><svg><li></svg><li>",
                "<dd><math><dt></math><dt>",
                "<h1><svg><h2></svg><h3>",
                // "after head": head-only elements re-push the head element pointer
                "<head></head><template>",
                "</head><template><div>",
                "</head><title>t</title>",
                "</head><script>s</script><link>",
                "</head><style>s</style><meta>",
                "</head><noframes>",
                "</template><title>",
                "</template><base><link>",
                "<head><template></head><body>",
                "<form><template>",
                "</template><input><button>",
                "<table><form><template>",
                "</form><input name=a>",
            ]);
            out.push_str(skel);
        },
        22 => {
            let tag = *rng.pick(&["meta", "meta", "link", "base", "script", "template", "input"]);
            gen_start_tag(rng, tag, out);
            if tag == "script" {
                gen_raw_body(rng, tag, out);
                gen_end_tag(rng, tag, out);
            }
        },
        _ => {
            if rng.chance(1, 2) {
                out.push(*rng.pick(ODD_CHARS));
            } else {
                // a foreign element named like an HTML special element, possibly closed by an end tag
                let root = rng.pick_str(&["<svg>", "<math>", "<svg><foreignObject><svg>", "<math><mi><math>", "<svg><desc><svg>"]);
                let name = rng.pick_str(&[
                    "template", "table", "select", "option", "html", "head", "body", "form", "script", "title", "textarea",
                    "style", "a", "button", "li", "p", "td", "tr", "caption", "frameset", "noscript", "plaintext", "input",
                ]);
                out.push_str(root);
                out.push('<');
                out.push_str(name);
                out.push('>');
                if rng.chance(1, 2) {
                    // HTML content at an integration point inside the foreign namesake: every
                    // stack walk that looks for "the td" / "the template" / "the html" by name
                    // meets the foreign element first
                    let ip = if root.starts_with("<svg") {
                        rng.pick_str(&["<foreignObject>", "<desc>", "<title>"])
                    } else {
                        rng.pick_str(&["<mi>", "<mtext>", "<annotation-xml encoding=text/html>", "<mo>"])
                    };
                    out.push_str(ip);
                    for _ in 0..rng.range(1, 4) {
                        out.push_str(rng.pick_str(&[
                            "<table>", "</table>", "<template>", "</template>", "<td>", "<th>", "<tr>", "<tbody>", "<caption>", "</caption>", "</td>", "<frameset>",
                            "<select>", "</select>", "<body>", "<html a=b>", "<head>", "<p>", "</p>", "<li>", "<dd>", "<button>", "<form>", "</form>", "<input>", "<option>",
                            "<colgroup>", "<col>", "x", "<b>", "</b>", "<a>", "<script></script>", "</body>", "</html>", "<h1>", "<title>t</title>", "<textarea>",
                        ]));
                    }
                }
                if rng.chance(1, 2) {
                    out.push_str("</");
                    out.push_str(rng.pick_str(&["a", "b", "i", "p", "table", "template", "svg", "math", "body", "html", "div"]));
                    out.push('>');
                }
            }
        },
    }
}

/// Sizes near the thresholds that block-wise scans, small-vector spills, caps and 8 / 16-bit
/// counters hang on: 2^k - 3 ..= 2^k + 3 for k in 5..=17.
pub fn near_threshold(rng: &mut Rng) -> usize {
    let k = match rng.weighted(&[3, 2, 1, 2, 1, 3, 1, 3, 1, 2, 1, 3, 1]) {
        0 => 5,
        1 => 6,
        2 => 7,
        3 => 8,
        4 => 9,
        5 => 10,
        6 => 11,
        7 => 12,
        8 => 13,
        9 => 14,
        10 => 15,
        11 => 16,
        _ => 17,
    };
    ((1i64 << k) + rng.range(0, 6) as i64 - 3).max(1) as usize
}

/// Counts of siblings / attributes / open elements near 16, 32, 64 ...
pub fn near_count(rng: &mut Rng) -> usize {
    *rng.pick(&[4usize, 8, 9, 15, 16, 17, 30, 31, 32, 33, 34, 35, 40, 63, 64, 65, 66, 100, 130, 255, 256, 257])
}

/// A run of `len` bytes (about) of text without markup: one filler (ASCII, all two-byte, all
/// three-byte or mixed), optional line breaks with a fixed period, and a multi-byte character
/// lying across byte `len` of the run.
pub fn long_run(rng: &mut Rng, len: usize, out: &mut String) {
    let kind = rng.below(6);
    let period = *rng.pick(&[0usize, 0, 0, 1, 2, 4, 8, 16, 16, 3, 64, 100]);
    let nl = *rng.pick(&["\n", "\n", "\n", "\r\n", "\r"]);
    let start = out.len();
    let back = rng.below(4); // how far before `len` the straddling character starts
    let mut i = 0usize;
    while out.len() - start + 4 + back < len {
        if period > 0 && i % period == period - 1 {
            out.push_str(nl);
        } else {
            out.push(match kind {
                0 | 1 => (b'a' + (i % 26) as u8) as char,
                2 => 'é',
                3 => '中',
                4 => *rng.pick(&['x', 'é', '中', 'y', ' ']),
                _ => 'x',
            });
        }
        i += 1;
    }
    while out.len() - start + back < len {
        out.push('y');
    }
    out.push(*rng.pick(&['😀', '😀', '中', 'é', 'z']));
    for _ in 0..rng.small(4) {
        out.push(*rng.pick(&['t', ' ', '\n', 'é', '\r']));
    }
}

/// A customizable-select scene: where the selectedcontent elements sit (in the button, loose in
/// the select, inside an option, behind a table that foster-parents), which options are selected
/// and which end tags are written out is all drawn.
pub fn gen_select_scenario(rng: &mut Rng, out: &mut String) {
    out.push_str(rng.pick_str(&["<select>", "<select>", "<select multiple>", "<div><select>", "<table><select>", "<form><select>"]));
    let mut open_table = false;
    for _ in 0..rng.range(2, 7) {
        match rng.below(12) {
            0 | 1 => {
                out.push_str("<button><selectedcontent");
                if rng.chance(1, 2) {
                    out.push_str(" id=1");
                }
                out.push('>');
                out.push_str(rng.pick_str(&["", "old", "<i>o</i>"]));
                out.push_str(rng.pick_str(&["</selectedcontent></button>", "</selectedcontent></button>", "</button>", ""]));
            },
            2 => {
                out.push_str("<selectedcontent id=2>");
                out.push_str(rng.pick_str(&["", "x", "</selectedcontent>", "</selectedcontent>"]));
            },
            3..=6 => {
                out.push_str(rng.pick_str(&["<option selected>", "<option selected>", "<option>", "<option selected=a id=o>"]));
                for _ in 0..rng.small(3) {
                    out.push_str(rng.pick_str(&["a", "b c", "<b>x</b>", "<i>", "<selectedcontent></selectedcontent>", "<selectedcontent>in</selectedcontent>", "<!--c-->", "&amp;", "<div>d</div>", "<svg><g/></svg>", "<template>t</template>", "<div><template><b>x</b></template></div>",
                        // everything an element carries besides name and attributes has to survive the copy
                        "<math><annotation-xml encoding=text/html>m</annotation-xml></math>", "<math><annotation-xml encoding=application/xhtml+xml><p>q</annotation-xml></math>",
                        "<svg><foreignObject>f</foreignObject></svg>", "<script>s</script>", "<a href=u id=i class=c>l</a>"]));
                }
                out.push_str(rng.pick_str(&["</option>", "</option>", "</option>", ""]));
            },
            7 => out.push_str(rng.pick_str(&["<optgroup>", "</optgroup>", "<optgroup label=l>"])),
            8 => out.push_str(rng.pick_str(&["<div>", "</div>", "<hr>", "<datalist>", "</datalist>", "<span>"])),
            9 => {
                if open_table {
                    out.push_str(rng.pick_str(&["</td></tr>", "</table>", "<tr><td>", "</td></tr></table>"]));
                } else {
                    out.push_str(rng.pick_str(&["<table>", "<table><tr><td>", "<table><tbody>"]));
                    open_table = true;
                }
            },
            10 => out.push_str(rng.pick_str(&["<script></script>", "<input>", "<select>", "<textarea>", "<keygen>", "<p>"])),
            _ => out.push_str(rng.pick_str(&["t", " ", "</select>", "</button>", "<template>", "</template>"])),
        }
    }
    if rng.chance(1, 2) {
        out.push_str("</select>");
    }
}

/// A token with a big payload (text, attribute value, tag name, doctype identifiers) at a place
/// where the tree builder reports it as unexpected: exact error messages carry a dump of it.
pub fn gen_big_unexpected_token(rng: &mut Rng) -> String {
    let mut out = String::new();
    let mut n = near_threshold(rng).min(20_000);
    if rng.chance(1, 3) {
        n += rng.below(n / 2 + 1);
    }
    let filler = *rng.pick(&['x', 'é', 'é', '中', '中', '\u{65e5}', '😀', '"', '\'', '\\']);
    let payload: String = {
        let mut p = String::new();
        for _ in 0..rng.below(4) {
            p.push('a');
        }
        while p.len() < n {
            p.push(filler);
        }
        p
    };
    match rng.below(9) {
        0 => out.push_str(&format!("</body>{payload}")),
        1 => out.push_str(&format!("</html>{payload}<p>")),
        2 => out.push_str(&format!("<frameset>{payload}</frameset>{payload}")),
        3 => out.push_str(&format!("<table>{payload}<tr><td>x")),
        4 => out.push_str(&format!("<table><b>{payload}</table>")),
        5 => out.push_str(&format!("<p></{payload}><div></div title='{payload}'>")),
        6 => out.push_str(&format!("<div><frameset cols=\"{payload}\"><body class=\"{payload}\">")),
        7 => out.push_str(&format!("<!DOCTYPE html><p><!DOCTYPE {payload} PUBLIC \"{payload}\"><head title={payload}>")),
        _ => out.push_str(&format!("<table><{payload}></table><select><input value='{payload}'>")),
    }
    out
}

/// Around `<frameset>`: content that keeps "frameset-ok" (or not), foreign elements with HTML
/// structure names, integration points, then the frameset and what may follow it.
pub fn gen_frameset_scenario(rng: &mut Rng, out: &mut String) {
    if rng.chance(1, 6) {
        gen_doctype(rng, out);
    }
    for _ in 0..rng.small(5) {
        out.push_str(rng.pick_str(&[
            " ", "\n", "<!--c-->", "<div>", "<p>", "<span>", "<svg>", "<math>", "<svg><html>", "<svg><body>", "<math><html>", "<svg><frameset>",
            "<foreignObject>", "<svg><foreignObject>", "<desc>", "<svg><title>", "<mi>", "<math><mi>", "<annotation-xml encoding=text/html>",
            "<b>", "<a>", "<tt>", "<head>", "</head>", "<body>", "<html a=b>", "<template>", "</template>", "<ul>", "<center>", "<table>", "x",
            "<input type=hidden>", "<br>", "</p>", "<noframes></noframes>", "<title></title>", "<svg><head>", "<math><body>",
        ]));
    }
    out.push_str(rng.pick_str(&["<frameset>", "<frameset>", "<frameset cols=1>", "<FRAMESET>"]));
    for _ in 0..rng.small(6) {
        out.push_str(rng.pick_str(&[
            "<frame>", "</frameset>", "<frameset>", "x", " ", "\n", "<noframes>", "</noframes>", "</html>", "<!--c-->", "<b>", "<p>", "<svg>", "</body>",
            "<body>", "<html x=y>", "<template>", "<script></script>", "<tt>", "</FRameSET>", "<a>", "</svg>",
        ]));
    }
}

/// Inputs that probe size thresholds (lengths, counts, depths) instead of syntax.
pub fn gen_scale_input(rng: &mut Rng) -> String {
    let mut out = String::new();
    if rng.chance(1, 8) {
        gen_doctype(rng, &mut out);
    }
    match rng.below(9) {
        0 | 1 => {
            // one long run of text in some context
            out.push_str(rng.pick_str(&[
                "", "", "", "<p>", "<pre>", "<pre>\n", "<textarea>", "<title>", "<script>", "<style>", "<!--", "<a href=\"", "<a title='",
                "<plaintext>", "<svg><![CDATA[", "<table>", "<table><b>", "</body>", "</html>", "<frameset>", "<select>", "<!DOCTYPE ",
                "<xmp>", "&", "<div class=", "<", "</", "<!DOCTYPE a PUBLIC \"", "<a ", "<listing>\n", "<svg><desc>", "<math><mtext>", "<noscript>",
                "<table><tr><td>", "<template>", "<option>", "<b><i>", "<ruby><rt>",
            ]));
            let mut n = near_threshold(rng);
            if rng.chance(1, 3) {
                // caps bite anywhere beyond the mark, not only next to it
                n += rng.below(n / 2 + 1);
            }
            long_run(rng, n, &mut out);
            out.push_str(rng.pick_str(&["", "", "</p>", "\n<b>x", "\">", "'>", "-->", "</script>", "</textarea>x", "</title>", "]]>", "</table>", "<p>\n", ">", "\" \"s\">"]));
            if rng.chance(1, 3) {
                let n = near_threshold(rng).min(5000);
                long_run(rng, n, &mut out);
            }
        },
        2 => {
            // many siblings under one parent, then something that looks a node up or moves it
            out.push_str(rng.pick_str(&["", "<div>", "<ul>", "<table>", "<table><tr>", "<select>", "</body>", "</html>", "<div></div></body>", "<template>", "<svg>", "<p>", "<b>", "<head>"]));
            let item = rng.pick_str(&["<!--c-->", "<br>", "<p>x", "<li>", "<td>", "<tr>", "<option>", "x<b></b>", "<i>", "<hr>", "<g/>", "<span></span>", "t<!---->", "<meta>", "<col>", "<div></div>"]);
            for _ in 0..near_count(rng) {
                out.push_str(item);
            }
            for _ in 0..rng.range(1, 3) {
                out.push_str(rng.pick_str(&["<frameset>", "</div>", "x", "<table>", "</table>", "<script></script>", "<body a=b>", "</p>", "<frameset></frameset>", "</select>", "<caption>", "</b>", "<tr>", "text", "</ul>"]));
            }
        },
        3 => {
            // deep stack of open elements, a pause, then closers and text
            let tag = rng.pick_str(&["<div>", "<b>", "<span>", "<i>", "<a>", "<font>", "<p>", "<ul><li>", "<table><tr><td>", "<svg>", "<template>", "<button>", "<dl><dd>", "<nobr>", "<g>", "<section>"]);
            let n = near_count(rng).min(130);
            out.push_str(rng.pick_str(&["", "", "<body>", "<p>", "<table><td>", "<svg>"]));
            for _ in 0..n {
                out.push_str(tag);
            }
            out.push_str(rng.pick_str(&["", "<script></script>", "<script>s</script>", "x"]));
            for _ in 0..rng.small(4) {
                out.push_str(rng.pick_str(&["</div>", "</b>", "</span>", "</p>", "</a>", "</table>", "</svg>", "</template>", "x", "<p>", "</body>", "</i>", "</font>", "<td>", "</li>"]));
            }
        },
        4 => {
            // many attributes, duplicates at the far ends; a second tag that merges attributes
            let tag = rng.pick_str(&["div", "a", "html", "body", "svg", "math", "meta", "input", "x"]);
            let n = near_count(rng).min(257);
            for round in 0..rng.range(1, 2) {
                out.push('<');
                out.push_str(tag);
                for i in 0..n {
                    out.push_str(&format!(" a{}={}", if rng.chance(1, 40) { 0 } else { i + round * (n / 2) }, i % 10));
                }
                if rng.chance(1, 2) {
                    out.push_str(" a0=dup");
                }
                out.push('>');
            }
        },
        5 => {
            // identical formatting elements (Noah's ark clause), mis-nested closers, a pause
            out.push_str(rng.pick_str(&["", "<i>", "<a>", "<p>", "<table>", "<div>", "<nobr>"]));
            let f = rng.pick_str(&["<b>", "<i>", "<font>", "<font color=x>", "<em>", "<nobr>", "<a href=u>", "<b id=1>", "<u>"]);
            for _ in 0..rng.range(3, 9) {
                out.push_str(f);
                if rng.chance(1, 6) {
                    out.push_str(rng.pick_str(&["<b>", "<i x=y>", "x", "<p>"]));
                }
            }
            for _ in 0..rng.range(1, 6) {
                out.push_str(rng.pick_str(&["</b>", "</i>", "</font>", "</a>", "</em>", "</nobr>", "<div>", "<p>", "x", "<table>", "<script></script>", "</p>", "</div>", "<tr>", "</u>"]));
            }
        },
        6 => gen_select_scenario(rng, &mut out),
        7 => {
            // long names and identifiers
            let n = near_threshold(rng).min(20_000);
            let name: String = (0..n).map(|i| (b'a' + (i % 26) as u8) as char).collect();
            match rng.below(6) {
                0 => out.push_str(&format!("<{name} {name}={name}>x</{name}>")),
                1 => out.push_str(&format!("<!DOCTYPE {name} PUBLIC \"{name}\" '{name}'>")),
                2 => out.push_str(&format!("&{name};<p>&#{}", "9".repeat(n.min(400)))),
                3 => out.push_str(&format!("<a {name}>")),
                4 => out.push_str(&format!("<!--{name}--!{name}-->")),
                _ => out.push_str(&format!("<svg><{name}/><![CDATA[{name}]]>")),
            }
        },
        _ => {
            // a long run behind ordinary content
            gen_node(rng, &mut out, 3);
            let n = near_threshold(rng);
            long_run(rng, n, &mut out);
            gen_node(rng, &mut out, 3);
        },
    }
    out
}

/// Structural mutation on char spans so that markup is malformed most of the time.
pub fn mutate(rng: &mut Rng, s: &str) -> String {
    let mut v: Vec<char> = s.chars().collect();
    let n = rng.small(3);
    for _ in 0..n {
        if v.is_empty() {
            break;
        }
        let a = rng.below(v.len());
        let len = 1 + rng.small(6);
        let b = (a + len).min(v.len());
        match rng.below(4) {
            0 => {
                v.drain(a..b);
            },
            1 => {
                let seg: Vec<char> = v[a..b].to_vec();
                let at = rng.below(v.len() + 1);
                for (i, c) in seg.into_iter().enumerate() {
                    v.insert((at + i).min(v.len()), c);
                }
            },
            2 => {
                let c = *rng.pick(ODD_CHARS);
                v.insert(a, c);
            },
            _ => {
                if b < v.len() {
                    v.swap(a, b);
                }
            },
        }
    }
    v.into_iter().collect()
}

#[derive(Clone, Copy, Debug, PartialEq, Eq)]
pub enum SizeClass {
    Small,
    Medium,
    Large,
    Huge,
}

pub fn pick_size(rng: &mut Rng, thorough: bool) -> SizeClass {
    let r = rng.below(1000);
    if r < 620 {
        SizeClass::Small
    } else if r < 930 {
        SizeClass::Medium
    } else if r < 998 || !thorough {
        SizeClass::Large
    } else {
        SizeClass::Huge
    }
}

pub fn gen_html(rng: &mut Rng, size: SizeClass) -> String {
    let (budget, depth) = match size {
        SizeClass::Small => (64, 2),
        SizeClass::Medium => (512, 4),
        SizeClass::Large => (4096, 6),
        SizeClass::Huge => (65536, 8),
    };
    let mut out = String::new();
    if rng.chance(1, 12) {
        out.push('\u{feff}');
    }
    if rng.chance(1, 6) {
        gen_doctype(rng, &mut out);
    }
    let target = 1 + rng.below(budget);
    let mut guard = 0;
    while out.len() < target && guard < 20000 {
        gen_node(rng, &mut out, depth);
        guard += 1;
    }
    let mut s = if rng.chance(1, 2) { mutate(rng, &out) } else { out };
    // keep within the budget in chars
    if s.chars().count() > budget {
        s = s.chars().take(budget).collect();
    }
    s
}

/// Fragment contexts: (namespace, local name).
pub const CONTEXTS: &[(&str, &str)] = &[
    ("html", "div"),
    ("html", "body"),
    ("html", "html"),
    ("html", "head"),
    ("html", "title"),
    ("html", "textarea"),
    ("html", "style"),
    ("html", "script"),
    ("html", "xmp"),
    ("html", "iframe"),
    ("html", "noembed"),
    ("html", "noframes"),
    ("html", "noscript"),
    ("html", "plaintext"),
    ("html", "table"),
    ("html", "tbody"),
    ("html", "tr"),
    ("html", "td"),
    ("html", "th"),
    ("html", "caption"),
    ("html", "colgroup"),
    ("html", "select"),
    ("html", "option"),
    ("html", "template"),
    ("html", "frameset"),
    ("html", "form"),
    ("html", "p"),
    ("html", "a"),
    ("html", "pre"),
    ("svg", "svg"),
    ("svg", "foreignObject"),
    ("svg", "title"),
    ("svg", "desc"),
    ("svg", "path"),
    ("mathml", "math"),
    ("mathml", "mi"),
    ("mathml", "annotation-xml"),
    ("mathml", "mtext"),
    // context elements from other vocabularies (an element parsed by xml5ever, the null namespace),
    // and foreign elements named like HTML raw-text / special elements
    ("", "a"),
    ("", "title"),
    ("urn:example:widgets", "x"),
    ("urn:example:widgets", "script"),
    ("urn:example:widgets", "template"),
    ("http://www.w3.org/1999/xlink", "href"),
    ("svg", "script"),
    ("svg", "style"),
    ("svg", "textarea"),
    ("mathml", "title"),
    ("svg", "template"),
    ("mathml", "td"),
];
