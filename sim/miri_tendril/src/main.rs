//! C12 under Miri: (a) single-thread histories (adds out-of-bounds reads, invalid transmutes,
//! uninitialised reads, leaks), (b) real threads holding clones / subtendrils of one atomic
//! buffer, exchanging tendrils through channels, dropping in seeded order (data races,
//! use-after-free, double free under Miri's seeded scheduler).
//!
//!   miri_tendril single <fmt 0..4> <atomic 0|1> <hist_seed> <max_ops>
//!   miri_tendril threads <hist_seed> <steps>
//! History seeds go in argv, never in the environment (cargo-miri bakes env in at build time).

use std::sync::mpsc;
use std::thread;

use tendril::{fmt, Atomic, Tendril};
use tendril_hist::rng::Rng;
use tendril_hist::{gen_selected, run_selected, NoObserver};

type AT = Tendril<fmt::UTF8, Atomic>;

fn single(args: &[String]) -> i32 {
    let fmt_id: u8 = args[0].parse().unwrap();
    let atomic = args[1] == "1";
    let seed: u64 = args[2].parse().unwrap();
    let max_ops: usize = args[3].parse().unwrap();
    let mut rng = Rng::new(seed);
    let ops = gen_selected(fmt_id, &mut rng, max_ops);
    match run_selected(fmt_id, atomic, &ops, &mut NoObserver) {
        Ok(d) => {
            println!("OK single fmt={fmt_id} atomic={atomic} seed={seed} ops={} digest={d}", ops.len());
            0
        },
        Err(f) => {
            println!("FAIL single fmt={fmt_id} atomic={atomic} seed={seed} class={} {}", f.class, f.detail);
            // value mismatches are C11's business; Miri's own diagnostics are what C12 needs
            0
        },
    }
}

struct Held {
    t: AT,
    model: Vec<u8>,
}

fn check(h: &Held, who: usize, step: usize) {
    assert_eq!(h.t.as_bytes().as_ref() as &[u8], &h.model[..], "thread {who} step {step}: tendril content differs from its model");
}

fn worker(who: usize, seed: u64, steps: usize, mut held: Vec<Held>, tx: mpsc::Sender<Held>, rx: mpsc::Receiver<Held>) {
    let mut rng = Rng::new(seed ^ (who as u64 * 0x9E37));
    for step in 0..steps {
        if held.is_empty() {
            if let Ok(h) = rx.try_recv() {
                held.push(h);
            }
            continue;
        }
        let i = rng.below(held.len());
        match rng.below(9) {
            0 => {
                // clone (shares the buffer, increments the atomic refcount)
                let c = Held { t: held[i].t.clone(), model: held[i].model.clone() };
                held.push(c);
            },
            1 => {
                // subtendril at ASCII offsets (content is ASCII)
                let len = held[i].model.len();
                if len > 1 {
                    let a = rng.below(len);
                    let b = a + rng.below(len - a);
                    let t = held[i].t.subtendril(a as u32, (b - a) as u32);
                    held.push(Held { t, model: held[i].model[a..b].to_vec() });
                }
            },
            2 => {
                // mutation: forces copy-on-write away from the shared buffer
                held[i].t.push_slice("xy");
                held[i].model.extend_from_slice(b"xy");
            },
            3 => {
                let n = held[i].model.len().min(rng.below(4));
                held[i].t.pop_front(n as u32);
                held[i].model.drain(..n);
            },
            4 => {
                // hand a tendril to the next thread: atomic tendrils are Send
                let h = held.swap_remove(i);
                let _ = tx.send(h);
            },
            5 => {
                // through SendTendril (make_owned + transmute across atomicity)
                let h = held.swap_remove(i);
                let s = h.t.into_send();
                let back: AT = Tendril::from(s);
                let _ = tx.send(Held { t: back, model: h.model });
            },
            6 => {
                if let Ok(h) = rx.try_recv() {
                    check(&h, who, step);
                    held.push(h);
                }
            },
            7 => {
                // drop one
                let h = held.swap_remove(i);
                check(&h, who, step);
                drop(h);
            },
            _ => {
                // push_tendril of a clone: adjacent shared slices may merge without copying
                let c = held[i].t.clone();
                let j = rng.below(held.len());
                held[j].t.push_tendril(&c);
                let m = held[i].model.clone();
                held[j].model.extend_from_slice(&m);
            },
        }
        if rng.chance(1, 3) {
            thread::yield_now();
        }
        for h in &held {
            check(h, who, step);
        }
    }
    // seeded drop order
    while !held.is_empty() {
        let i = rng.below(held.len());
        let h = held.swap_remove(i);
        check(&h, who, steps);
        drop(h);
    }
    // drain what others sent us so that nothing is leaked in the channel
    drop(tx);
    while let Ok(h) = rx.recv() {
        check(&h, who, steps + 1);
    }
}

fn threads(args: &[String]) -> i32 {
    let seed: u64 = args[0].parse().unwrap();
    let steps: usize = args[1].parse().unwrap();
    let mut rng = Rng::new(seed);
    let text: String = (0..rng.range(40, 120)).map(|i| (b'a' + (i % 26) as u8) as char).collect();
    let base: AT = Tendril::from_slice(&text[..]);
    const N: usize = 3;
    let mut txs = vec![];
    let mut rxs = vec![];
    for _ in 0..N {
        let (tx, rx) = mpsc::channel::<Held>();
        txs.push(tx);
        rxs.push(Some(rx));
    }
    let mut handles = vec![];
    for who in 0..N {
        let mut held = vec![];
        for _ in 0..rng.range(1, 3) {
            if rng.chance(1, 2) {
                held.push(Held { t: base.clone(), model: text.as_bytes().to_vec() });
            } else {
                let a = rng.below(text.len());
                let b = a + rng.below(text.len() - a);
                held.push(Held { t: base.subtendril(a as u32, (b - a) as u32), model: text.as_bytes()[a..b].to_vec() });
            }
        }
        let tx = txs[(who + 1) % N].clone();
        let rx = rxs[who].take().unwrap();
        let s = rng.next_u64();
        handles.push(thread::spawn(move || worker(who, s, steps, held, tx, rx)));
    }
    drop(txs);
    let drop_base_first = rng.chance(1, 2);
    if drop_base_first {
        drop(base);
        for h in handles {
            h.join().unwrap();
        }
    } else {
        for h in handles {
            h.join().unwrap();
        }
        assert_eq!(&*base, &text[..]);
        drop(base);
    }
    println!("OK threads seed={seed} steps={steps}");
    0
}

/// A value that depends on Miri's own seed (-Zmiri-seed / -Zmiri-many-seeds): under Miri the
/// hash-map keys come from the interpreter's seeded RNG, so this is deterministic per seed and lets
/// one `many-seeds` invocation explore a different history for every schedule seed.
fn seed_from_interpreter() -> u64 {
    use std::hash::{BuildHasher, Hasher};
    let mut h = std::collections::hash_map::RandomState::new().build_hasher();
    h.write_u64(0x5eed);
    h.finish()
}

fn main() {
    let args: Vec<String> = std::env::args().skip(1).collect();
    let code = match args.first().map(|s| s.as_str()) {
        Some("single") => single(&args[1..]),
        Some("threads") => threads(&args[1..]),
        Some("single-any") => {
            // single-any <base_seed> <max_ops>
            let base: u64 = args[1].parse().unwrap();
            let r = seed_from_interpreter() ^ base;
            let fmt_id = (r % 5) as u8;
            let atomic = (r / 5) % 2 == 1;
            single(&[fmt_id.to_string(), (atomic as u8).to_string(), (r >> 8).to_string(), args[2].clone()])
        },
        Some("threads-any") => {
            // threads-any <base_seed> <steps>
            let base: u64 = args[1].parse().unwrap();
            let r = seed_from_interpreter() ^ base;
            threads(&[(r >> 4).to_string(), args[2].clone()])
        },
        _ => 2,
    };
    std::process::exit(code);
}
